// C12 (reduced) — a syntax error reports a line that is an actual line of the input and a
// column within it: the real error mapping of IDL::try_from composed with the real
// peg::Parse::position_repr, for every text over the line-ending alphabet and every offset.
// The grammar itself (ParseInterface on symbolic text) is outside CBMC's reach (DESIGN P9).
use super::shared::c12::*;
use super::shared::src_trait::KSrc;
use crate::{Error, IDL};
use std::convert::TryFrom;

static mut FAIL_POS: usize = 0;

/// stands for the peg-generated entry point: the parser gives up at byte offset FAIL_POS; the
/// error value is built by peg's own ErrorState::into_parse_error (real position_repr)
fn parse_stub<'input>(input: &'input str) -> Result<IDL<'input>, peg::error::ParseError<peg::str::LineCol>> {
    let mut st = peg::error::ErrorState::new(0);
    st.max_err_pos = unsafe { FAIL_POS };
    Err(st.into_parse_error(input))
}

fn fixed_random_state() -> std::hash::RandomState {
    unsafe { std::mem::transmute::<(u64, u64), std::hash::RandomState>((0, 0)) }
}

fn no_format(_a: std::fmt::Arguments<'_>) -> String {
    String::new()
}

fn naive_memchr(x: u8, text: &[u8]) -> Option<usize> {
    let mut i = 0;
    while i < text.len() {
        if text[i] == x {
            return Some(i);
        }
        i += 1;
    }
    None
}

#[kani::proof]
#[kani::unwind(8)]
#[kani::stub(crate::varlink_grammar::ParseInterface, parse_stub)]
#[kani::stub(std::hash::RandomState::new, fixed_random_state)]
#[kani::stub(alloc::fmt::format, no_format)]
#[kani::stub(core::slice::memchr::memchr, naive_memchr)]
fn c12_error_position() {
    error_position(4);
}

#[kani::proof]
#[kani::unwind(10)]
#[kani::stub(crate::varlink_grammar::ParseInterface, parse_stub)]
#[kani::stub(std::hash::RandomState::new, fixed_random_state)]
#[kani::stub(alloc::fmt::format, no_format)]
#[kani::stub(core::slice::memchr::memchr, naive_memchr)]
fn c12_error_position_len6() {
    error_position(6);
}

fn error_position(n: usize) {
    let sc = draw(&mut KSrc, n);
    unsafe { FAIL_POS = sc.pos };
    let bytes = &sc.text[..n];
    let text = unsafe { std::str::from_utf8_unchecked(bytes) };
    let r = IDL::try_from(text);
    let (start, end, col) = line_of(bytes, sc.pos);
    kani::cover!(start > 0 && end < n, "error on an inner line");
    match &r {
        Err(Error::Parse { line, column }) => {
            let l = line.as_bytes();
            assert!(l.len() == end - start, "P:c12.reported_line_is_the_line_of_the_error");
            let mut i = 0;
            while i < l.len() {
                assert!(l[i] == sc.text[start + i], "P:c12.reported_line_is_the_line_of_the_error");
                i += 1;
            }
            assert!(*column >= 1 && *column <= l.len() + 1, "P:c12.column_within_the_line");
            assert!(*column == col, "P:c12.column_points_at_the_error");
        }
        _ => assert!(false, "P:c12.syntax_error_is_reported_as_parse_error"),
    }
    std::mem::forget(r);
}
