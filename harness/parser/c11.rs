// C11 (reduced) — no member name is defined twice across methods, types and errors, and
// the structure mirrors the order of appearance: the real IDL::from_token on a member list.
// Language equality of the grammar itself is outside CBMC's reach (DESIGN P9).
use super::shared::c11::*;
use super::shared::src_trait::KSrc;
use crate::{Method, MethodOrTypedefOrError, Typedef, VEnum, VError, VStruct, VStructOrEnum, IDL};

fn member<'a>(kind: u8, name: &'a str) -> MethodOrTypedefOrError<'a> {
    match kind {
        K_METHOD => MethodOrTypedefOrError::Method(Method {
            name,
            doc: "",
            input: VStruct { elts: Vec::new() },
            output: VStruct { elts: Vec::new() },
        }),
        K_TYPE => MethodOrTypedefOrError::Typedef(Typedef {
            name,
            doc: "",
            elt: VStructOrEnum::VEnum(Box::new(VEnum { elts: Vec::new() })),
        }),
        _ => MethodOrTypedefOrError::Error(VError {
            name,
            doc: "",
            parm: VStruct { elts: Vec::new() },
        }),
    }
}

fn fixed_random_state() -> std::hash::RandomState {
    unsafe { std::mem::transmute::<(u64, u64), std::hash::RandomState>((0, 0)) }
}
fn cheap_finish(_h: &std::hash::DefaultHasher) -> u64 {
    0
}
fn cheap_write(_h: &mut std::hash::DefaultHasher, _b: &[u8]) {}
fn cheap_write_str(_h: &mut std::hash::DefaultHasher, _s: &str) {}
fn no_format(_a: std::fmt::Arguments<'_>) -> String {
    String::new()
}

static mut REPORTED: usize = 0;

/// stands for HashSet<String>::insert on IDL.error (hashbrown's insert costs CBMC minutes and
/// is not the subject): counts the definition errors from_token reports
fn error_insert_model<T, S, A: std::alloc::Allocator>(_s: &mut std::collections::HashSet<T, S, A>, v: T) -> bool {
    unsafe { REPORTED += 1 };
    std::mem::forget(v);
    true
}

fn duplicates(n: usize, kinds: [u8; NM]) {
    let mut sc = draw(&mut KSrc);
    // only the LAST member's name is solver-chosen; the earlier ones are pinned to distinct
    // names (BTreeMap insertion with several if-then-else keys does not finish in CBMC)
    let mut p = 0;
    while p + 1 < n {
        let pin = p % 2 == 1;
        kani::assume(sc.name_b[p] == pin);
        sc.name_b[p] = pin;
        p += 1;
    }
    let mut mt = Vec::with_capacity(NM);
    let mut i = 0;
    while i < n {
        mt.push(member(kinds[i], name_of(sc.name_b[i])));
        i += 1;
    }
    let idl = IDL::from_token("", "a.b", mt, "");
    let dup = has_duplicate(&sc, n);
    kani::cover!(dup, "a name is defined twice");
    kani::cover!(!dup, "all names distinct");
    assert!((unsafe { REPORTED } > 0) == dup, "P:c11.duplicate_name_rejected_and_only_then");
    // members are recorded per kind in order of appearance
    let (mut m, mut t, mut e) = (0usize, 0usize, 0usize);
    let mut j = 0;
    while j < n {
        let name = name_of(sc.name_b[j]);
        match kinds[j] {
            K_METHOD => {
                assert!(m < idl.method_keys.len() && idl.method_keys[m].as_ptr() == name.as_ptr(), "P:c11.methods_in_order_of_appearance");
                m += 1;
            }
            K_TYPE => {
                assert!(t < idl.typedef_keys.len() && idl.typedef_keys[t].as_ptr() == name.as_ptr(), "P:c11.types_in_order_of_appearance");
                t += 1;
            }
            _ => {
                assert!(e < idl.error_keys.len() && idl.error_keys[e].as_ptr() == name.as_ptr(), "P:c11.errors_in_order_of_appearance");
                e += 1;
            }
        }
        j += 1;
    }
    assert!(idl.method_keys.len() == m && idl.typedef_keys.len() == t && idl.error_keys.len() == e, "P:c11.no_other_members");
    std::mem::forget(idl);
}

macro_rules! c11h {
    ($name:ident, $n:expr, $kinds:expr) => {
        #[kani::proof]
        #[kani::unwind(6)]
        #[kani::stub(std::hash::RandomState::new, fixed_random_state)]
        #[kani::stub(std::collections::HashSet::insert, error_insert_model)]
        #[kani::stub(alloc::fmt::format, no_format)]
        fn $name() {
            duplicates($n, $kinds);
        }
    };
}

c11h!(c11_dup_mm, 2, [K_METHOD, K_METHOD, 0]);
c11h!(c11_dup_mt, 2, [K_METHOD, K_TYPE, 0]);
c11h!(c11_dup_me, 2, [K_METHOD, K_ERROR, 0]);
c11h!(c11_dup_tm, 2, [K_TYPE, K_METHOD, 0]);
c11h!(c11_dup_tt, 2, [K_TYPE, K_TYPE, 0]);
c11h!(c11_dup_te, 2, [K_TYPE, K_ERROR, 0]);
c11h!(c11_dup_em, 2, [K_ERROR, K_METHOD, 0]);
c11h!(c11_dup_et, 2, [K_ERROR, K_TYPE, 0]);
c11h!(c11_dup_ee, 2, [K_ERROR, K_ERROR, 0]);
c11h!(c11_dup_mte, 3, [K_METHOD, K_TYPE, K_ERROR]);
c11h!(c11_dup_etm, 3, [K_ERROR, K_TYPE, K_METHOD]);
