// NOT MOUNTED (kept for the record, see DESIGN.md 3/C11): with two members CBMC either needs > 5 min per
// instance with fully concrete names or reports its own memcmp "region readable" precondition as failed
// once a name byte is symbolic - moving the 88-byte member enum through vec::IntoIter loses the
// provenance of the &str pointers inside it. One member verifies in 9 s but cannot have a duplicate.
//
// C11 (second half, reduced) - a definition is rejected exactly when a member name is defined
// twice across methods, types and errors, and the accepted structure lists the members per kind in
// order of appearance: the real IDL::from_token on a member list whose kinds are constants of the
// instance and whose names are solver-chosen. (IDL::try_from's last step - a non-empty error set
// becomes Err(Error::Idl) - is three lines around a hashbrown iteration + sort that CBMC does not
// finish; it is exercised natively by the replayer only.)
// (Which texts the grammar accepts is decided by smt/c11.py.)
use super::shared::c11::*;
use super::shared::src_trait::KSrc;
use crate::{Method, MethodOrTypedefOrError, Typedef, VEnum, VError, VStruct, VStructOrEnum, IDL};

/// one byte per member name; contents symbolic, addresses concrete and distinct
static mut NAMES: [[u8; 1]; NM] = [[0; 1]; NM];
static mut KINDS: [u8; NM] = [0; NM];
static mut N: usize = 0;
static mut REPORTED: usize = 0;

fn name(i: usize) -> &'static str {
    unsafe { std::str::from_utf8_unchecked(&NAMES[i][..]) }
}

fn member<'a>(kind: u8, name: &'a str) -> MethodOrTypedefOrError<'a> {
    match kind {
        K_METHOD => MethodOrTypedefOrError::Method(Method {
            name,
            doc: "",
            input: VStruct { elts: Vec::new() },
            output: VStruct { elts: Vec::new() },
        }),
        K_TYPE => MethodOrTypedefOrError::Typedef(Typedef {
            name,
            doc: "",
            elt: VStructOrEnum::VEnum(Box::new(VEnum { elts: Vec::new() })),
        }),
        _ => MethodOrTypedefOrError::Error(VError {
            name,
            doc: "",
            parm: VStruct { elts: Vec::new() },
        }),
    }
}

fn fixed_random_state() -> std::hash::RandomState {
    unsafe { std::mem::transmute::<(u64, u64), std::hash::RandomState>((0, 0)) }
}
fn no_format(_a: std::fmt::Arguments<'_>) -> String {
    String::new()
}

/// stands for HashSet<String>::insert on IDL.error (hashbrown's insert costs CBMC
/// minutes and is not the subject): a ghost count of the definition errors reported
fn error_insert_model<T, S, A: std::alloc::Allocator>(_s: &mut std::collections::HashSet<T, S, A>, v: T) -> bool {
    unsafe { REPORTED += 1 };
    std::mem::forget(v);
    true
}
/// stand for BTreeMap<&str, _>::{insert, len} on IDL.methods / typedefs / errors (std's B-tree insertion
/// with node splitting costs CBMC > 8 GB and is not the subject): an association list with exactly
/// insert's contract - same key (by Ord) present => the old value is returned and replaced.
/// The three maps are told apart by the size of their value type (Method, Typedef, VError differ).
static mut BT: [(usize, *const (), *mut ()); 3 * NM] = [(0, std::ptr::null(), std::ptr::null_mut()); 3 * NM];
static mut BT_N: usize = 0;

fn btree_insert_model<K: Ord, V, A: std::alloc::Allocator + Clone>(
    _m: &mut std::collections::BTreeMap<K, V, A>,
    key: K,
    value: V,
) -> Option<V> {
    let id = std::mem::size_of::<V>();
    let newv = Box::into_raw(Box::new(value)) as *mut ();
    let mut i = 0;
    while i < unsafe { BT_N } {
        let (eid, kp, vp) = unsafe { BT[i] };
        if eid == id {
            let k2: &K = unsafe { &*(kp as *const K) };
            if k2.cmp(&key) == std::cmp::Ordering::Equal {
                let old = unsafe { *Box::from_raw(vp as *mut V) };
                unsafe { BT[i].2 = newv };
                std::mem::forget(key);
                return Some(old);
            }
        }
        i += 1;
    }
    let kp = Box::into_raw(Box::new(key)) as *const ();
    unsafe {
        BT[BT_N] = (id, kp, newv);
        BT_N += 1;
    }
    None
}

fn btree_len_model<K, V, A: std::alloc::Allocator + Clone>(_m: &std::collections::BTreeMap<K, V, A>) -> usize {
    let id = std::mem::size_of::<V>();
    let mut c = 0;
    let mut i = 0;
    while i < unsafe { BT_N } {
        if unsafe { BT[i].0 } == id {
            c += 1;
        }
        i += 1;
    }
    c
}

fn duplicates(n: usize, kinds: [u8; NM]) {
    let sc = draw(&mut KSrc);
    let mut i = 0;
    while i < n {
        unsafe {
            NAMES[i][0] = letter(sc.name_b[i]);
            KINDS[i] = kinds[i];
        }
        i += 1;
    }
    unsafe { N = n };
    // the grammar's action block on a fixed parse: IDL::from_token(input, name, members, trim_doc(doc))
    let mut mt = Vec::with_capacity(NM);
    let mut i = 0;
    while i < n {
        mt.push(member(kinds[i], name(i)));
        i += 1;
    }
    let idl = IDL::from_token("x", "a.b", mt, crate::trim_doc(""));
    let dup = has_duplicate(&sc, n);
    kani::cover!(dup, "a name is defined twice");
    kani::cover!(!dup, "all names distinct");
    // IDL::try_from turns a non-empty `error` set into Err(Error::Idl(..)), an empty one into Ok
    let reported = unsafe { REPORTED } > 0;
    assert!(!reported || dup, "P:c11.definition_without_duplicates_is_accepted");
    assert!(reported || !dup, "P:c11.duplicate_name_is_rejected");
    // members are recorded per kind in order of appearance
    let (mut m, mut t, mut e) = (0usize, 0usize, 0usize);
    let mut j = 0;
    while j < n {
        let want = name(j).as_ptr();
        match kinds[j] {
            K_METHOD => {
                assert!(m < idl.method_keys.len() && idl.method_keys[m].as_ptr() == want, "P:c11.methods_in_order_of_appearance");
                m += 1;
            }
            K_TYPE => {
                assert!(t < idl.typedef_keys.len() && idl.typedef_keys[t].as_ptr() == want, "P:c11.types_in_order_of_appearance");
                t += 1;
            }
            _ => {
                assert!(e < idl.error_keys.len() && idl.error_keys[e].as_ptr() == want, "P:c11.errors_in_order_of_appearance");
                e += 1;
            }
        }
        j += 1;
    }
    assert!(idl.method_keys.len() == m && idl.typedef_keys.len() == t && idl.error_keys.len() == e, "P:c11.no_other_members");
    if !dup {
        assert!(idl.methods.len() == m && idl.typedefs.len() == t && idl.errors.len() == e, "P:c11.maps_hold_every_member");
    }
    assert!(idl.name.len() == 3 && idl.name.as_ptr() == "a.b".as_ptr(), "P:c11.interface_name_kept");
    std::mem::forget(idl);
}

macro_rules! c11h {
    ($name:ident, $n:expr, $kinds:expr) => {
        #[kani::proof]
        #[kani::unwind(6)]
        #[kani::stub(std::hash::RandomState::new, fixed_random_state)]
        #[kani::stub(std::collections::HashSet::insert, error_insert_model)]
        #[kani::stub(alloc::fmt::format, no_format)]
        #[kani::stub(std::collections::BTreeMap::insert, btree_insert_model)]
        #[kani::stub(std::collections::BTreeMap::len, btree_len_model)]
        fn $name() {
            duplicates($n, $kinds);
        }
    };
}

const M: u8 = K_METHOD;
const T: u8 = K_TYPE;
const E: u8 = K_ERROR;
c11h!(c11_dup_mm, 2, [M, M, 0]);
c11h!(c11_dup_mt, 2, [M, T, 0]);
c11h!(c11_dup_me, 2, [M, E, 0]);
c11h!(c11_dup_tm, 2, [T, M, 0]);
c11h!(c11_dup_tt, 2, [T, T, 0]);
c11h!(c11_dup_te, 2, [T, E, 0]);
c11h!(c11_dup_em, 2, [E, M, 0]);
c11h!(c11_dup_et, 2, [E, T, 0]);
c11h!(c11_dup_ee, 2, [E, E, 0]);
c11h!(c11_dup_mte, 3, [M, T, E]);
c11h!(c11_dup_etm, 3, [E, T, M]);
c11h!(c11_dup_mmt, 3, [M, M, T]);
c11h!(c11_dup_tee, 3, [T, E, E]);
c11h!(c11_dup_tmt, 3, [T, M, T]);
c11h!(c11_dup_eme, 3, [E, M, E]);
