// Harness root for the `varlink_parser` crate overlay; mounted as `crate::verif_parser`
// (cfg(kani) only). A child of the crate root: IDL::from_token and the private enum
// MethodOrTypedefOrError are visible here.
#![allow(dead_code, unused_imports, static_mut_refs)]

#[path = "shared/mod.rs"]
pub mod shared;

#[path = "parser/c12.rs"]
mod c12;
// parser/c11.rs (duplicate detection) is kept for the record but not mounted: it does not reach a
// verdict (DESIGN.md section 5, C11)
