// C03 — the built-in org.varlink.service interface tells the truth, and the private
// VarlinkService::call routes by interface name. Call-level harnesses (no handle loop).
use super::io::RecW;
use super::nde::{FvKind, MapScript};
use super::shared::c17::{draw_str, SStr, SB};
use super::shared::src_trait::{KSrc, Src};
use super::stubs;
use super::tagser::{self, Tok};
use crate::{Call, CallTrait, Interface, Request, ServiceInfo, VarlinkService};
use serde_json::Value;
use std::borrow::Cow;

fn service_with(vendor: &SStr, product: &SStr, version: &SStr, url: &SStr) -> VarlinkService {
    VarlinkService {
        info: ServiceInfo {
            vendor: Cow::Owned(vendor.to_string()),
            product: Cow::Owned(product.to_string()),
            version: Cow::Owned(version.to_string()),
            url: Cow::Owned(url.to_string()),
            interfaces: vec![Cow::Borrowed("org.varlink.service")],
        },
        ifaces: std::collections::HashMap::new(),
    }
}

fn tok_is(t: Tok, s: &SStr) -> bool {
    if t.k != tagser::STR || t.len != s.len {
        return false;
    }
    let mut i = 0;
    while i < s.len && i < SB {
        if t.byte(i) != s.b[i] {
            return false;
        }
        i += 1;
    }
    true
}

macro_rules! c03h {
    ($name:ident, $body:expr) => {
        #[kani::proof]
        #[kani::unwind(10)]
        #[kani::stub(serde_json::to_string, stubs::to_string)]
        #[kani::stub(serde_json::to_value, stubs::to_value)]
        #[kani::stub(serde_json::from_value, stubs::from_value)]
        #[kani::stub(alloc::fmt::format, stubs::format)]
        #[kani::stub(std::hash::RandomState::new, stubs::fixed_random_state)]
        #[kani::stub(<serde_json::Value as std::clone::Clone>::clone, stubs::value_clone_shallow)]
        fn $name() {
            $body
        }
    };
}

// GetInfo returns the configured vendor, product, version, url and the interface list
c03h!(c03_builtin_getinfo, {
    let (v, p, ver, u) = (draw_str(&mut KSrc), draw_str(&mut KSrc), draw_str(&mut KSrc), draw_str(&mut KSrc));
    let svc = service_with(&v, &p, &ver, &u);
    let req = Request::create("org.varlink.service.GetInfo", None);
    let mut w = RecW::new();
    stubs::reset();
    let r = {
        let mut call = Call::new(&mut w, &req);
        Interface::call(&svc, &mut call)
    };
    let ok = r.is_ok();
    std::mem::forget(r);
    let info = unsafe { &stubs::FIRST_TV };
    kani::cover!(v.len == 3, "3-byte vendor");
    assert!(ok && w.writes == 1 && w.tag[0] == b'R' && w.tag3[0] == stubs::ERR_NONE, "P:c03.getinfo_one_successful_reply");
    assert!(unsafe { stubs::N_TV } == 1 && info.n == 5, "P:c03.getinfo_reply_is_the_service_info");
    assert!(tok_is(info.field("vendor"), &v), "P:c03.getinfo_vendor_as_configured");
    assert!(tok_is(info.field("product"), &p), "P:c03.getinfo_product_as_configured");
    assert!(tok_is(info.field("version"), &ver), "P:c03.getinfo_version_as_configured");
    assert!(tok_is(info.field("url"), &u), "P:c03.getinfo_url_as_configured");
    assert!(info.seq_n == 1 && info.seq[0].k == tagser::STR && info.seq[0].len == 19
        && info.seq[0].w == tagser::pack(b"org.varl"),
        "P:c03.getinfo_lists_service_interface_first");
    std::mem::forget(svc);
});

// an unknown method of the built-in interface: MethodNotFound naming the full method
c03h!(c03_builtin_unknown_method, {
    let z = draw_str(&mut KSrc);
    let svc = service_with(&z, &z, &z, &z);
    let req = Request::create("org.varlink.service.Nope", None);
    let mut w = RecW::new();
    stubs::reset();
    let r = {
        let mut call = Call::new(&mut w, &req);
        Interface::call(&svc, &mut call)
    };
    let ok = r.is_ok();
    std::mem::forget(r);
    let p = unsafe { &stubs::FIRST_TV };
    assert!(ok && w.writes == 1 && w.tag3[0] == stubs::ERR_METHOD_NOT_FOUND, "P:c03.unknown_method_answered_method_not_found");
    let m = p.field("method");
    assert!(m.k == tagser::STR && m.len == 24 && m.w == tagser::pack(b"org.varl"), "P:c03.method_not_found_names_full_method");
    std::mem::forget(svc);
});

fn getdesc(params_present: bool, fv: FvKind, iface: Option<&SStr>, want_err: u8, want_param: &'static str) {
    let z = SStr { len: 1, b: [b'v', 0, 0] };
    let svc = service_with(&z, &z, &z, &z);
    let req = Request::create(
        "org.varlink.service.GetInterfaceDescription",
        if params_present { Some(Value::Bool(true)) } else { None },
    );
    stubs::reset();
    unsafe {
        super::io::CUR_ORD = 0;
        stubs::FV[0] = fv;
        if let Some(s) = iface {
            let mut n = MapScript::empty();
            let mut w8 = [0u8; 8];
            let mut i = 0;
            while i < SB {
                w8[i] = s.b[i];
                i += 1;
            }
            n.bytes("interface", s.len, w8, true);
            super::nde::NESTED[0] = n;
        }
    }
    let mut w = RecW::new();
    let r = {
        let mut call = Call::new(&mut w, &req);
        Interface::call(&svc, &mut call)
    };
    let ok = r.is_ok();
    std::mem::forget(r);
    if want_err == b'!' {
        // the arguments do not deserialize: the dispatch fails, nothing is written
        assert!(!ok && w.writes == 0, "P:c03.getdesc_undeserializable_arguments_fail_without_reply");
    } else {
        assert!(ok && w.writes == 1 && w.tag[0] == b'R', "P:c03.getdesc_one_reply");
        assert!(w.tag3[0] == want_err, "P:c03.getdesc_reply_kind");
        if want_err == stubs::ERR_INVALID_PARAM {
            let p = unsafe { &stubs::FIRST_TV };
            let t = p.field("parameter");
            assert!(
                t.k == tagser::STR && t.len == want_param.len() && t.w == tagser::pack(want_param.as_bytes()),
                "P:c03.invalid_parameter_names_the_parameter"
            );
        }
    }
    std::mem::forget(svc);
}

c03h!(c03_builtin_getdesc_noparams, getdesc(false, FvKind::EmptyObj, None, stubs::ERR_INVALID_PARAM, "parameters"));
c03h!(c03_builtin_getdesc_nonobject, getdesc(true, FvKind::NonObject, None, b'!', ""));
c03h!(c03_builtin_getdesc_emptyobj, getdesc(true, FvKind::EmptyObj, None, b'!', ""));
c03h!(c03_builtin_getdesc_unregistered, {
    // any interface name of <= 3 bytes: nothing but the service interface is registered
    let s = draw_str(&mut KSrc);
    getdesc(true, FvKind::Obj(0), Some(&s), stubs::ERR_INVALID_PARAM, "interface");
});

// the description of org.varlink.service itself is returned verbatim
c03h!(c03_builtin_getdesc_service, {
    let z = SStr { len: 1, b: [b'v', 0, 0] };
    let svc = service_with(&z, &z, &z, &z);
    let req = Request::create("org.varlink.service.GetInterfaceDescription", Some(Value::Bool(true)));
    stubs::reset();
    unsafe {
        super::io::CUR_ORD = 0;
        stubs::FV[0] = FvKind::Obj(0);
        let mut n = MapScript::empty();
        n.string("interface", "org.varlink.service", true);
        super::nde::NESTED[0] = n;
    }
    let mut w = RecW::new();
    let r = {
        let mut call = Call::new(&mut w, &req);
        Interface::call(&svc, &mut call)
    };
    let ok = r.is_ok();
    std::mem::forget(r);
    assert!(ok && w.writes == 1 && w.tag3[0] == stubs::ERR_NONE, "P:c03.getdesc_service_one_successful_reply");
    // the reply's parameters: an object with the single member `description`
    let rep = unsafe { &stubs::LAST_TS };
    let pt = rep.field("parameters");
    assert!(pt.k == tagser::MAP && pt.len == 1, "P:c03.getdesc_reply_has_description_member");
    std::mem::forget(svc);
});

// ---- VarlinkService::call (private): routing by interface name ------------------------

fn route(iface: &'static str, method: &'static str, want_err: u8) {
    let z = SStr { len: 1, b: [b'v', 0, 0] };
    let svc = service_with(&z, &z, &z, &z);
    let req = Request::create(method, None);
    stubs::reset();
    let mut w = RecW::new();
    let r = {
        let mut call = Call::new(&mut w, &req);
        svc.call(iface, &mut call)
    };
    let ok = r.is_ok();
    std::mem::forget(r);
    assert!(ok && w.writes == 1 && w.tag[0] == b'R', "P:c03.route_one_reply");
    assert!(w.tag3[0] == want_err, "P:c03.route_reply_kind");
    if want_err == stubs::ERR_IFACE_NOT_FOUND {
        let p = unsafe { &stubs::FIRST_TV };
        let t = p.field("interface");
        assert!(t.k == tagser::STR && t.len == iface.len() && t.w == tagser::pack(iface.as_bytes()),
            "P:c03.interface_not_found_names_the_interface");
    }
    std::mem::forget(svc);
}

c03h!(c03_route_service, route("org.varlink.service", "org.varlink.service.GetInfo", stubs::ERR_NONE));
c03h!(c03_route_unregistered, route("a.b", "a.b.M", stubs::ERR_IFACE_NOT_FOUND));
c03h!(c03_route_prefix_of_service, route("org.varlink", "org.varlink.service", stubs::ERR_IFACE_NOT_FOUND));
c03h!(c03_route_empty, route("", ".M", stubs::ERR_IFACE_NOT_FOUND));

// ---- VarlinkService::new: the advertised interface list ----------------------------------
// NOT registered: two real hashbrown inserts (even with a constant hash) give no verdict within
// 50 minutes (DESIGN B3); kept for the record.

struct Named(&'static str);
impl Interface for Named {
    fn get_description(&self) -> &'static str {
        "d"
    }
    fn get_name(&self) -> &'static str {
        self.0
    }
    fn call_upgraded(&self, _c: &mut Call, _b: &mut dyn std::io::BufRead) -> crate::Result<Vec<u8>> {
        Ok(Vec::new())
    }
    fn call(&self, _call: &mut Call) -> crate::Result<()> {
        Ok(())
    }
}

pub fn cheap_finish(_h: &std::hash::DefaultHasher) -> u64 {
    0
}
pub fn cheap_write(_h: &mut std::hash::DefaultHasher, _b: &[u8]) {}
pub fn cheap_write_str(_h: &mut std::hash::DefaultHasher, _s: &str) {}

fn new_lists(second: &'static str, want: usize) {
    let v = draw_str(&mut KSrc);
    let svc = VarlinkService::new(
        v.to_string(),
        String::from("p"),
        String::from("1"),
        String::from("u"),
        vec![Box::new(Named("a.b")), Box::new(Named(second))],
    );
    let l = &svc.info.interfaces;
    assert!(l.len() == want, "P:c03.getinfo_lists_every_registered_interface_exactly_once");
    assert!(tagser::key_eq(l[0].as_ref(), "org.varlink.service"), "P:c03.getinfo_lists_service_interface_first");
    let mut n_ab = 0;
    let mut n_2 = 0;
    let mut i = 1;
    while i < l.len() {
        if tagser::key_eq(l[i].as_ref(), "a.b") {
            n_ab += 1;
        }
        if tagser::key_eq(l[i].as_ref(), second) {
            n_2 += 1;
        }
        i += 1;
    }
    assert!(n_ab == 1 && n_2 == 1, "P:c03.getinfo_lists_every_registered_interface_exactly_once");
    let s = &svc.info.vendor;
    assert!(s.len() == v.len, "P:c03.getinfo_vendor_as_configured");
    std::mem::forget(svc);
}

macro_rules! c03new {
    ($name:ident, $second:expr, $want:expr) => {
        #[kani::proof]
        #[kani::unwind(10)]
        #[kani::stub(alloc::fmt::format, stubs::format)]
        #[kani::stub(std::hash::RandomState::new, stubs::fixed_random_state)]
        #[kani::stub(<std::hash::DefaultHasher as std::hash::Hasher>::finish, cheap_finish)]
        #[kani::stub(<std::hash::DefaultHasher as std::hash::Hasher>::write, cheap_write)]
        #[kani::stub(<std::hash::DefaultHasher as std::hash::Hasher>::write_str, cheap_write_str)]
        fn $name() {
            new_lists($second, $want);
        }
    };
}
c03new!(c03_new_two_distinct, "a.c", 3);
c03new!(c03_new_same_name_twice, "a.b", 2);
