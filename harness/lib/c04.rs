// C04 — a oneway call never produces a reply: every reply path the library owns.
use super::io::RecW;
use super::shared::c04::{draw, C04};
use super::shared::src_trait::KSrc;
use super::stubs;
use crate::{Call, CallTrait, Reply, Request};
use serde_json::Value;
use std::borrow::Cow;

pub fn run_path(call: &mut Call, sc: &C04) -> crate::Result<()> {
    match sc.path {
        0 => call.reply_struct(Reply::parameters(None)),
        1 => call.reply_parameters(Value::Null),
        2 => call.reply_method_not_found(String::new()),
        3 => call.reply_method_not_implemented(String::new()),
        4 => call.reply_invalid_parameter(String::new()),
        5 => call.reply_interface_not_found(Some(String::new())),
        6 => call.reply_interface_not_found(None),
        _ => call.reply_struct(Reply::error("x.E", None)),
    }
}

#[kani::proof]
#[kani::unwind(12)]
#[kani::stub(serde_json::to_string, stubs::to_string)]
#[kani::stub(serde_json::to_value, stubs::to_value)]
#[kani::stub(alloc::fmt::format, stubs::format)]
fn c04_reply_paths() {
    let sc = draw(&mut KSrc);
    let req = Request {
        more: sc.more,
        oneway: sc.oneway,
        upgrade: sc.upgrade,
        method: Cow::Borrowed("a.B"),
        parameters: None,
    };
    let mut w = RecW::new();
    let r = {
        let mut call = Call::new(&mut w, &req);
        call.continues = sc.continues;
        run_path(&mut call, &sc)
    };
    let ok = r.is_ok();
    std::mem::forget(r);

    if sc.oneway == Some(true) {
        kani::cover!(ok, "oneway request reaches a reply path that returns Ok");
        assert!(w.bytes == 0, "P:c04.oneway_no_reply_bytes");
        assert!(w.writes == 0, "P:c04.oneway_no_write_call");
    } else {
        let mismatch = sc.continues && sc.more != Some(true);
        kani::cover!(!mismatch, "ordinary reply written");
        if !mismatch {
            assert!(ok, "P:c04.normal_reply_ok");
            assert!(w.writes == 1 && w.nul_terminated[0], "P:c04.normal_exactly_one_message");
            assert!(w.tag[0] == b'R', "P:c04.normal_reply_is_reply_object");
        }
    }
}

pub fn simple_to_string<T: ?Sized + serde::Serialize>(_value: &T) -> serde_json::Result<String> {
    Ok(String::from("R--"))
}
pub fn simple_to_value<T: serde::Serialize>(value: T) -> serde_json::Result<Value> {
    std::mem::forget(value);
    Ok(Value::Bool(true))
}

#[kani::proof]
#[kani::unwind(12)]
#[kani::stub(serde_json::to_string, simple_to_string)]
#[kani::stub(serde_json::to_value, simple_to_value)]
#[kani::stub(alloc::fmt::format, stubs::format)]
fn c04_probe_simple() {
    let sc = draw(&mut KSrc);
    let req = Request {
        more: sc.more,
        oneway: sc.oneway,
        upgrade: sc.upgrade,
        method: Cow::Borrowed("a.B"),
        parameters: None,
    };
    let mut w = RecW::new();
    let r = {
        let mut call = Call::new(&mut w, &req);
        call.continues = sc.continues;
        run_path(&mut call, &sc)
    };
    let ok = r.is_ok();
    std::mem::forget(r);
    if sc.oneway == Some(true) {
        assert!(w.bytes == 0, "P:c04.oneway_no_reply_bytes");
    }
}
