// Reach probes (not registered as checks).
use super::io::{ArrR, RecW};
use super::stubs;
use std::io::{BufRead, BufReader, Read, Write};

pub fn naive_memchr(x: u8, text: &[u8]) -> Option<usize> {
    let mut i = 0;
    while i < text.len() {
        if text[i] == x {
            return Some(i);
        }
        i += 1;
    }
    None
}

pub fn small_bufreader<R: Read>(inner: R) -> BufReader<R> {
    BufReader::with_capacity(8, inner)
}

#[kani::proof]
#[kani::unwind(10)]
fn probe_a_bufreader_plain() {
    let mut r = ArrR::<4>::new([b'a', 0, b'b', 0], 4);
    let dynr: &mut dyn BufRead = &mut r;
    let mut br = BufReader::new(dynr);
    let mut buf = Vec::new();
    let n = br.read_until(0, &mut buf).unwrap();
    assert!(n == 2);
}

#[kani::proof]
#[kani::unwind(10)]
#[kani::stub(core::slice::memchr::memchr, naive_memchr)]
fn probe_b_bufreader_memchr() {
    let mut r = ArrR::<4>::new([b'a', 0, b'b', 0], 4);
    let dynr: &mut dyn BufRead = &mut r;
    let mut br = BufReader::new(dynr);
    let mut buf = Vec::new();
    let n = br.read_until(0, &mut buf).unwrap();
    assert!(n == 2);
}

#[kani::proof]
#[kani::unwind(10)]
#[kani::stub(core::slice::memchr::memchr, naive_memchr)]
#[kani::stub(std::io::BufReader::new, small_bufreader)]
fn probe_c_bufreader_small() {
    let mut r = ArrR::<4>::new([b'a', 0, b'b', 0], 4);
    let dynr: &mut dyn BufRead = &mut r;
    let mut br = BufReader::new(dynr);
    let mut buf = Vec::new();
    let n = br.read_until(0, &mut buf).unwrap();
    assert!(n == 2);
}

#[kani::proof]
#[kani::unwind(10)]
#[kani::stub(core::slice::memchr::memchr, naive_memchr)]
#[kani::stub(std::io::BufReader::new, small_bufreader)]
fn probe_d_bufreader_sym() {
    let data: [u8; 4] = kani::any();
    let len: usize = kani::any();
    kani::assume(len <= 4);
    let mut r = ArrR::<4>::new(data, len);
    let dynr: &mut dyn BufRead = &mut r;
    let mut br = BufReader::new(dynr);
    let mut buf = Vec::new();
    let n = br.read_until(0, &mut buf).unwrap();
    assert!(n <= len);
    if n > 0 && buf[n - 1] == 0 {
        let mut buf2 = Vec::new();
        let n2 = br.read_until(0, &mut buf2).unwrap();
        assert!(n + n2 <= len);
    }
}


#[kani::proof]
#[kani::unwind(4)]
fn probe_m_value_ite() {
    let c: bool = kani::any();
    let v: Option<serde_json::Value> = if c { None } else { Some(serde_json::Value::Bool(true)) };
    if let Some(p) = &v {
        let q = p.clone();
        assert!(q == serde_json::Value::Bool(true));
        std::mem::forget(q);
    }
    std::mem::forget(v);
}

#[kani::proof]
#[kani::unwind(4)]
fn probe_n_value_drop() {
    let c: bool = kani::any();
    let v: Option<serde_json::Value> = if c { None } else { Some(serde_json::Value::Bool(true)) };
    drop(v);
}


fn setup_fail() {
    unsafe {
        stubs::N_PARSE = 0;
        stubs::PARSE[0].ok = false;
    }
}

fn use_req(req: crate::Request) -> usize {
    let n = match req.method.rfind('.') {
        None => 0,
        Some(x) => x,
    };
    n
}

// A: map_err with a trivial closure, then match
#[kani::proof]
#[kani::unwind(8)]
#[kani::stub(serde_json::from_slice, stubs::from_slice)]
#[kani::stub(core::slice::memchr::memrchr, stubs::naive_memrchr)]
fn probe_r_a_maperr_trivial() {
    setup_fail();
    let buf = [b'm'];
    let r: std::result::Result<crate::Request, u8> = serde_json::from_slice::<crate::Request>(&buf).map_err(|e| {
        std::mem::forget(e);
        1u8
    });
    match r {
        Ok(req) => {
            let n = use_req(req);
            assert!(n == 0);
        }
        Err(_) => {}
    }
}

// B: trivial closure + `?`
fn b_inner(buf: &[u8]) -> std::result::Result<usize, u8> {
    let req: crate::Request = serde_json::from_slice(buf).map_err(|e| {
        std::mem::forget(e);
        1u8
    })?;
    Ok(use_req(req))
}
#[kani::proof]
#[kani::unwind(8)]
#[kani::stub(serde_json::from_slice, stubs::from_slice)]
#[kani::stub(core::slice::memchr::memrchr, stubs::naive_memrchr)]
fn probe_r_b_question() {
    setup_fail();
    let buf = [b'm'];
    let r = b_inner(&buf);
    assert!(r.is_err());
}

// C: the real closure (context! with a boxed source error), then match
#[kani::proof]
#[kani::unwind(8)]
#[kani::stub(serde_json::from_slice, stubs::from_slice)]
#[kani::stub(alloc::string::String::from_utf8_lossy, stubs::from_utf8_lossy)]
#[kani::stub(core::slice::memchr::memrchr, stubs::naive_memrchr)]
fn probe_r_c_context_closure() {
    setup_fail();
    let buf = [b'm'];
    let r: crate::Result<crate::Request> = serde_json::from_slice::<crate::Request>(&buf).map_err(|e| {
        crate::context!(
            e,
            crate::ErrorKind::SerdeJsonDe(String::from_utf8_lossy(&buf).to_string())
        )
    });
    match r {
        Ok(req) => {
            let n = use_req(req);
            assert!(n == 0);
        }
        Err(e) => std::mem::forget(e),
    }
}

// D: varlink::Error without a boxed source
#[kani::proof]
#[kani::unwind(8)]
#[kani::stub(serde_json::from_slice, stubs::from_slice)]
#[kani::stub(core::slice::memchr::memrchr, stubs::naive_memrchr)]
fn probe_r_d_error_nobox() {
    setup_fail();
    let buf = [b'm'];
    let r: crate::Result<crate::Request> = serde_json::from_slice::<crate::Request>(&buf).map_err(|e| {
        std::mem::forget(e);
        crate::Error(crate::ErrorKind::Generic, None, None)
    });
    match r {
        Ok(req) => {
            let n = use_req(req);
            assert!(n == 0);
        }
        Err(e) => std::mem::forget(e),
    }
}

// E: boxed source, constant kind
#[kani::proof]
#[kani::unwind(8)]
#[kani::stub(serde_json::from_slice, stubs::from_slice)]
#[kani::stub(core::slice::memchr::memrchr, stubs::naive_memrchr)]
fn probe_r_e_error_box() {
    setup_fail();
    let buf = [b'm'];
    let r: crate::Result<crate::Request> = serde_json::from_slice::<crate::Request>(&buf).map_err(|e| {
        crate::Error(crate::ErrorKind::Generic, Some(Box::from(e)), None)
    });
    match r {
        Ok(req) => {
            let n = use_req(req);
            assert!(n == 0);
        }
        Err(e) => std::mem::forget(e),
    }
}

// F: no box, kind carrying a String
#[kani::proof]
#[kani::unwind(8)]
#[kani::stub(serde_json::from_slice, stubs::from_slice)]
#[kani::stub(core::slice::memchr::memrchr, stubs::naive_memrchr)]
fn probe_r_f_error_stringkind() {
    setup_fail();
    let buf = [b'm'];
    let r: crate::Result<crate::Request> = serde_json::from_slice::<crate::Request>(&buf).map_err(|e| {
        std::mem::forget(e);
        crate::Error(crate::ErrorKind::SerdeJsonDe(String::new()), None, None)
    });
    match r {
        Ok(req) => {
            let n = use_req(req);
            assert!(n == 0);
        }
        Err(e) => std::mem::forget(e),
    }
}

fn marker_loop(n: usize) -> usize {
    // shows up in the log as "Unwinding loop ... marker_loop" iff symex gets here
    let mut i = 0;
    let mut s = 0;
    while i < n {
        s += i;
        i += 1;
    }
    s
}


fn ok_path(which: u8) {
    let f: Option<bool> = match kani::any::<u8>() % 3 {
        0 => None,
        1 => Some(false),
        _ => Some(true),
    };
    unsafe {
        stubs::N_PARSE = 0;
        stubs::PARSE[0].ok = true;
        let mut s = super::nde::MapScript::empty();
        s.flag("more", if which == 0 { f } else { None });
        s.flag("oneway", if which == 1 { f } else { None });
        s.flag("upgrade", if which == 2 { f } else { None });
        s.string("method", "a.b.M", true);
        s.opaque("parameters", true, true);
        stubs::PARSE[0].obj = s;
    }
    let buf = [b'm'];
    let r: crate::Result<crate::Request> = serde_json::from_slice::<crate::Request>(&buf).map_err(|e| {
        std::mem::forget(e);
        crate::Error(crate::ErrorKind::Generic, None, None)
    });
    match r {
        Ok(req) => {
            assert!(req.parameters.is_none());
            drop(req);
        }
        Err(e) => {
            let k = marker_loop(3);
            assert!(k == 3);
            std::mem::forget(e);
        }
    }
}

#[kani::proof]
#[kani::unwind(8)]
#[kani::stub(serde_json::from_slice, stubs::from_slice)]
fn probe_s0_more_symbolic() {
    ok_path(0);
}
#[kani::proof]
#[kani::unwind(8)]
#[kani::stub(serde_json::from_slice, stubs::from_slice)]
fn probe_s1_oneway_symbolic() {
    ok_path(1);
}
#[kani::proof]
#[kani::unwind(8)]
#[kani::stub(serde_json::from_slice, stubs::from_slice)]
fn probe_s2_upgrade_symbolic() {
    ok_path(2);
}
