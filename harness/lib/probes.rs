// Reach probes (not registered as checks).
use super::io::{ArrR, RecW};
use super::stubs;
use std::io::{BufRead, BufReader, Read, Write};

pub fn naive_memchr(x: u8, text: &[u8]) -> Option<usize> {
    let mut i = 0;
    while i < text.len() {
        if text[i] == x {
            return Some(i);
        }
        i += 1;
    }
    None
}

pub fn small_bufreader<R: Read>(inner: R) -> BufReader<R> {
    BufReader::with_capacity(8, inner)
}

#[kani::proof]
#[kani::unwind(10)]
fn probe_a_bufreader_plain() {
    let mut r = ArrR::<4>::new([b'a', 0, b'b', 0], 4);
    let dynr: &mut dyn BufRead = &mut r;
    let mut br = BufReader::new(dynr);
    let mut buf = Vec::new();
    let n = br.read_until(0, &mut buf).unwrap();
    assert!(n == 2);
}

#[kani::proof]
#[kani::unwind(10)]
#[kani::stub(core::slice::memchr::memchr, naive_memchr)]
fn probe_b_bufreader_memchr() {
    let mut r = ArrR::<4>::new([b'a', 0, b'b', 0], 4);
    let dynr: &mut dyn BufRead = &mut r;
    let mut br = BufReader::new(dynr);
    let mut buf = Vec::new();
    let n = br.read_until(0, &mut buf).unwrap();
    assert!(n == 2);
}

#[kani::proof]
#[kani::unwind(10)]
#[kani::stub(core::slice::memchr::memchr, naive_memchr)]
#[kani::stub(std::io::BufReader::new, small_bufreader)]
fn probe_c_bufreader_small() {
    let mut r = ArrR::<4>::new([b'a', 0, b'b', 0], 4);
    let dynr: &mut dyn BufRead = &mut r;
    let mut br = BufReader::new(dynr);
    let mut buf = Vec::new();
    let n = br.read_until(0, &mut buf).unwrap();
    assert!(n == 2);
}

#[kani::proof]
#[kani::unwind(10)]
#[kani::stub(core::slice::memchr::memchr, naive_memchr)]
#[kani::stub(std::io::BufReader::new, small_bufreader)]
fn probe_d_bufreader_sym() {
    let data: [u8; 4] = kani::any();
    let len: usize = kani::any();
    kani::assume(len <= 4);
    let mut r = ArrR::<4>::new(data, len);
    let dynr: &mut dyn BufRead = &mut r;
    let mut br = BufReader::new(dynr);
    let mut buf = Vec::new();
    let n = br.read_until(0, &mut buf).unwrap();
    assert!(n <= len);
    if n > 0 && buf[n - 1] == 0 {
        let mut buf2 = Vec::new();
        let n2 = br.read_until(0, &mut buf2).unwrap();
        assert!(n + n2 <= len);
    }
}


#[kani::proof]
#[kani::unwind(4)]
fn probe_m_value_ite() {
    let c: bool = kani::any();
    let v: Option<serde_json::Value> = if c { None } else { Some(serde_json::Value::Bool(true)) };
    if let Some(p) = &v {
        let q = p.clone();
        assert!(q == serde_json::Value::Bool(true));
        std::mem::forget(q);
    }
    std::mem::forget(v);
}

#[kani::proof]
#[kani::unwind(4)]
fn probe_n_value_drop() {
    let c: bool = kani::any();
    let v: Option<serde_json::Value> = if c { None } else { Some(serde_json::Value::Bool(true)) };
    drop(v);
}

#[kani::proof]
#[kani::unwind(8)]
#[kani::stub(serde_json::from_slice, stubs::from_slice)]
fn probe_o_parse_fail_folds() {
    unsafe {
        stubs::PARSE[0].ok = false;
    }
    let buf = [b'm'];
    let r: serde_json::Result<crate::Request> = serde_json::from_slice(&buf);
    match r {
        Ok(req) => {
            // should be unreachable: rfind only shows up in the log if symex gets here
            let n = req.method.rfind('.');
            assert!(n.is_none());
            std::mem::forget(req);
        }
        Err(e) => std::mem::forget(e),
    }
}

#[kani::proof]
#[kani::unwind(8)]
#[kani::stub(serde_json::from_slice, stubs::from_slice)]
fn probe_p_install_then_parse() {
    use super::shared::src_trait::KSrc;
    let sc = super::shared::c01::draw(&mut KSrc, 1);
    super::c01::install(&sc, 0, 0);
    let buf = [b'm'];
    let r: serde_json::Result<crate::Request> = serde_json::from_slice(&buf);
    match r {
        Ok(req) => {
            let n = req.method.rfind('.');
            assert!(n.is_none());
            std::mem::forget(req);
        }
        Err(e) => std::mem::forget(e),
    }
}

fn like_handle(buf: &[u8]) -> crate::Result<usize> {
    let req: crate::Request = serde_json::from_slice(buf).map_err(|e| {
        crate::context!(
            e,
            crate::ErrorKind::SerdeJsonDe(String::from_utf8_lossy(buf).to_string())
        )
    })?;
    let n = match req.method.rfind('.') {
        None => 0,
        Some(x) => x,
    };
    Ok(n)
}

#[kani::proof]
#[kani::unwind(8)]
#[kani::stub(serde_json::from_slice, stubs::from_slice)]
#[kani::stub(alloc::string::String::from_utf8_lossy, stubs::from_utf8_lossy)]
#[kani::stub(core::slice::memchr::memrchr, stubs::naive_memrchr)]
fn probe_q_like_handle() {
    use super::shared::src_trait::KSrc;
    let sc = super::shared::c01::draw(&mut KSrc, 1);
    super::c01::install(&sc, 0, 0);
    let buf = [b'm'];
    let r = like_handle(&buf);
    assert!(r.is_err());
    std::mem::forget(r);
}
