// C17 — wire data types survive a round trip, at the serde data-model level: the real
// Serialize impls run against the recording serializer; what they emitted is fed back,
// under serde's strict MapAccess protocol (the one serde_json's text and byte front-ends
// follow), through the real Deserialize visitors.
use super::nde::{self, MapScript, ObjDe, SLEN};
use super::shared::c17::*;
use super::shared::src_trait::KSrc;
use super::stubs;
use super::tagser::{self, record_into, Rec, Tok};
use crate::{GetInterfaceDescriptionReply, Reply, Request, ServiceInfo, StringHashSet};
use serde::Deserialize;
use serde_json::Value;
use std::borrow::Cow;

static mut REC: Rec = Rec::empty();

fn w8(s: &SStr) -> [u8; SLEN] {
    let mut w = [0u8; SLEN];
    let mut i = 0;
    while i < SB {
        w[i] = s.b[i];
        i += 1;
    }
    w
}

fn tok_is_str(t: Tok, s: &SStr) -> bool {
    if t.k != tagser::STR || t.len != s.len {
        return false;
    }
    let mut i = 0;
    while i < s.len && i < SB {
        if t.byte(i) != s.b[i] {
            return false;
        }
        i += 1;
    }
    true
}

fn tok_optbool(t: Tok) -> Option<bool> {
    t.as_bool()
}

fn str_eq(a: &str, s: &SStr) -> bool {
    let a = a.as_bytes();
    if a.len() != s.len {
        return false;
    }
    let mut i = 0;
    while i < s.len && i < SB {
        if a[i] != s.b[i] {
            return false;
        }
        i += 1;
    }
    true
}

fn value_of(params: u8) -> Option<Value> {
    match params {
        0 => None,
        1 => Some(Value::Null),
        2 => Some(Value::Bool(true)),
        _ => Some(Value::Bool(false)),
    }
}

/// is `v` the value drawn as `params`, after the round trip? (a member whose value is null
/// is equivalent to an absent optional member: the property's stated equivalence)
fn params_roundtrip_ok(v: &Option<Value>, params: u8) -> bool {
    match (v, params) {
        (None, 0) | (None, 1) => true,
        (Some(Value::Null), 1) => true,
        (Some(Value::Bool(true)), 2) => true,
        (Some(Value::Bool(false)), 3) => true,
        _ => false,
    }
}

// `PARAMS` is a constant of the harness instance: a symbolic Option<Value> discriminant
// makes Value's recursive drop/eq glue explode in CBMC.
fn request_roundtrip(params: u8) {
    let rv = draw_req(&mut KSrc);
    kani::assume(rv.params == params);
    let v = Request {
        more: rv.more,
        oneway: rv.oneway,
        upgrade: rv.upgrade,
        method: Cow::Owned(rv.method.to_string()),
        parameters: value_of(params),
    };
    let rec = unsafe {
        record_into(&v, &mut REC);
        &REC
    };
    // what is on the wire
    assert!(rec.name.len() == 7, "P:c17.request_is_a_struct");
    assert!(tok_optbool(rec.field("more")) == rv.more && rec.count("more") == rv.more.is_some() as usize,
        "P:c17.request_more_omitted_when_unset");
    assert!(tok_optbool(rec.field("oneway")) == rv.oneway && rec.count("oneway") == rv.oneway.is_some() as usize,
        "P:c17.request_oneway_omitted_when_unset");
    assert!(tok_optbool(rec.field("upgrade")) == rv.upgrade && rec.count("upgrade") == rv.upgrade.is_some() as usize,
        "P:c17.request_upgrade_omitted_when_unset");
    assert!(tok_is_str(rec.field("method"), &rv.method), "P:c17.request_method_member");
    assert!(rec.count("parameters") == (params != 0) as usize, "P:c17.request_parameters_omitted_when_unset");
    let expected_members = rv.more.is_some() as usize
        + rv.oneway.is_some() as usize
        + rv.upgrade.is_some() as usize
        + 1
        + (params != 0) as usize;
    assert!(rec.n == expected_members, "P:c17.request_no_other_members");

    // feed it back
    let mut s = MapScript::empty();
    s.flag("more", tok_optbool(rec.field("more")));
    s.flag("oneway", tok_optbool(rec.field("oneway")));
    s.flag("upgrade", tok_optbool(rec.field("upgrade")));
    let m = rec.field("method");
    let mut w = [0u8; SLEN];
    let mut i = 0;
    while i < SLEN {
        w[i] = m.byte(i);
        i += 1;
    }
    assert!(m.k == tagser::STR, "P:c17.request_method_member");
    s.bytes("method", m.len, w, true);
    let pt = rec.field("parameters");
    match params {
        0 | 1 => s.opaque("parameters", true, true),
        _ => {
            // a bool value
            let mut e = nde::Entry::blank();
            e.key = "parameters";
            e.kind = nde::K_BOOL;
            e.present = true;
            e.b = pt.w == 1;
            if s.n < nde::NENT {
                s.e[s.n] = e;
                s.n += 1;
            }
        }
    }
    let back = Request::deserialize(ObjDe(s));
    kani::cover!(rv.more == Some(true) && rv.method.len == 3, "request with more and a 3-byte method");
    match &back {
        Ok(b) => {
            assert!(b.more == rv.more && b.oneway == rv.oneway && b.upgrade == rv.upgrade, "P:c17.request_flags_roundtrip");
            assert!(str_eq(b.method.as_ref(), &rv.method), "P:c17.request_method_roundtrip");
            assert!(params_roundtrip_ok(&b.parameters, params), "P:c17.request_parameters_roundtrip");
        }
        Err(_) => assert!(false, "P:c17.request_deserializes"),
    }
    std::mem::forget(back);
    std::mem::forget(v);
}

macro_rules! c17h {
    ($name:ident, $body:expr) => {
        #[kani::proof]
        #[kani::unwind(12)]
        #[kani::stub(alloc::fmt::format, stubs::format)]
        fn $name() {
            $body
        }
    };
}

c17h!(c17_request_p0, request_roundtrip(0));
c17h!(c17_request_p1, request_roundtrip(1));
c17h!(c17_request_p2, request_roundtrip(2));

fn reply_roundtrip(params: u8) {
    let rv = draw_reply(&mut KSrc);
    kani::assume(rv.params == params);
    let v = Reply {
        continues: rv.continues,
        error: if rv.has_error { Some(Cow::Owned(rv.error.to_string())) } else { None },
        parameters: value_of(params),
    };
    let rec = unsafe {
        record_into(&v, &mut REC);
        &REC
    };
    assert!(rec.name.len() == 5, "P:c17.reply_is_a_struct");
    assert!(tok_optbool(rec.field("continues")) == rv.continues
        && rec.count("continues") == rv.continues.is_some() as usize,
        "P:c17.reply_continues_omitted_when_unset");
    assert!(rec.count("error") == rv.has_error as usize, "P:c17.reply_error_omitted_when_unset");
    if rv.has_error {
        assert!(tok_is_str(rec.field("error"), &rv.error), "P:c17.reply_error_member");
    }
    assert!(rec.count("parameters") == (params != 0) as usize, "P:c17.reply_parameters_omitted_when_unset");
    assert!(rec.n == rv.continues.is_some() as usize + rv.has_error as usize + (params != 0) as usize,
        "P:c17.reply_no_other_members");

    let mut s = MapScript::empty();
    s.flag("continues", tok_optbool(rec.field("continues")));
    let e = rec.field("error");
    let mut w = [0u8; SLEN];
    let mut i = 0;
    while i < SLEN {
        w[i] = e.byte(i);
        i += 1;
    }
    s.optbytes("error", e.k == tagser::STR, e.len, w);
    let pt = rec.field("parameters");
    match params {
        0 | 1 => s.opaque("parameters", true, true),
        _ => {
            let mut en = nde::Entry::blank();
            en.key = "parameters";
            en.kind = nde::K_BOOL;
            en.present = true;
            en.b = pt.w == 1;
            if s.n < nde::NENT {
                s.e[s.n] = en;
                s.n += 1;
            }
        }
    }
    let back = Reply::deserialize(ObjDe(s));
    kani::cover!(rv.has_error && rv.continues == Some(true), "error reply with continues");
    match &back {
        Ok(b) => {
            assert!(b.continues == rv.continues, "P:c17.reply_continues_roundtrip");
            match &b.error {
                Some(es) => assert!(rv.has_error && str_eq(es.as_ref(), &rv.error), "P:c17.reply_error_roundtrip"),
                None => assert!(!rv.has_error, "P:c17.reply_error_roundtrip"),
            }
            assert!(params_roundtrip_ok(&b.parameters, params), "P:c17.reply_parameters_roundtrip");
        }
        Err(_) => assert!(false, "P:c17.reply_deserializes"),
    }
    std::mem::forget(back);
    std::mem::forget(v);
}

c17h!(c17_reply_p0, reply_roundtrip(0));
c17h!(c17_reply_p1, reply_roundtrip(1));
c17h!(c17_reply_p2, reply_roundtrip(2));

c17h!(c17_serviceinfo, {
    let iv = draw_info(&mut KSrc);
    let mut ifs: Vec<Cow<'static, str>> = Vec::with_capacity(2);
    let mut i = 0;
    while i < iv.nifaces && i < 2 {
        ifs.push(Cow::Owned(iv.ifaces[i].to_string()));
        i += 1;
    }
    let v = ServiceInfo {
        vendor: Cow::Owned(iv.vendor.to_string()),
        product: Cow::Owned(iv.product.to_string()),
        version: Cow::Owned(iv.version.to_string()),
        url: Cow::Owned(iv.url.to_string()),
        interfaces: ifs,
    };
    let rec = unsafe {
        record_into(&v, &mut REC);
        &REC
    };
    assert!(rec.n == 5, "P:c17.serviceinfo_five_members");
    assert!(tok_is_str(rec.field("vendor"), &iv.vendor), "P:c17.serviceinfo_vendor");
    assert!(tok_is_str(rec.field("product"), &iv.product), "P:c17.serviceinfo_product");
    assert!(tok_is_str(rec.field("version"), &iv.version), "P:c17.serviceinfo_version");
    assert!(tok_is_str(rec.field("url"), &iv.url), "P:c17.serviceinfo_url");
    let it = rec.field("interfaces");
    assert!(it.k == tagser::SEQ && it.len == iv.nifaces && rec.seq_n == iv.nifaces, "P:c17.serviceinfo_interfaces_is_array");
    let mut l2 = [0usize; 2];
    let mut w = [0u8; SLEN];
    let mut j = 0;
    while j < iv.nifaces && j < 2 {
        assert!(tok_is_str(rec.seq[j], &iv.ifaces[j]), "P:c17.serviceinfo_interfaces_in_order");
        l2[j] = rec.seq[j].len;
        let mut q = 0;
        while q < 4 {
            w[j * 4 + q] = rec.seq[j].byte(q);
            q += 1;
        }
        j += 1;
    }
    let mut s = MapScript::empty();
    let f = |s: &mut MapScript, key: &'static str, t: Tok| {
        let mut ww = [0u8; SLEN];
        let mut i = 0;
        while i < SLEN {
            ww[i] = t.byte(i);
            i += 1;
        }
        s.bytes(key, t.len, ww, true);
    };
    f(&mut s, "vendor", rec.field("vendor"));
    f(&mut s, "product", rec.field("product"));
    f(&mut s, "version", rec.field("version"));
    f(&mut s, "url", rec.field("url"));
    s.seq2("interfaces", rec.seq_n, l2, w);
    let back = ServiceInfo::deserialize(ObjDe(s));
    kani::cover!(iv.nifaces == 2, "two interfaces");
    match &back {
        Ok(b) => {
            assert!(str_eq(b.vendor.as_ref(), &iv.vendor) && str_eq(b.product.as_ref(), &iv.product)
                && str_eq(b.version.as_ref(), &iv.version) && str_eq(b.url.as_ref(), &iv.url),
                "P:c17.serviceinfo_strings_roundtrip");
            assert!(b.interfaces.len() == iv.nifaces, "P:c17.serviceinfo_interfaces_roundtrip");
            let mut j = 0;
            while j < iv.nifaces && j < 2 {
                assert!(str_eq(b.interfaces[j].as_ref(), &iv.ifaces[j]), "P:c17.serviceinfo_interfaces_roundtrip");
                j += 1;
            }
        }
        Err(_) => assert!(false, "P:c17.serviceinfo_deserializes"),
    }
    std::mem::forget(back);
    std::mem::forget(v);
});

c17h!(c17_description_reply, {
    let ov = draw_optstr(&mut KSrc);
    let v = GetInterfaceDescriptionReply {
        description: if ov.some { Some(ov.s.to_string()) } else { None },
    };
    let rec = unsafe {
        record_into(&v, &mut REC);
        &REC
    };
    assert!(rec.count("description") == ov.some as usize && rec.n == ov.some as usize,
        "P:c17.description_omitted_when_unset");
    let t = rec.field("description");
    if ov.some {
        assert!(tok_is_str(t, &ov.s), "P:c17.description_member");
    }
    let mut s = MapScript::empty();
    let mut w = [0u8; SLEN];
    let mut i = 0;
    while i < SLEN {
        w[i] = t.byte(i);
        i += 1;
    }
    s.optbytes("description", t.k == tagser::STR, t.len, w);
    let back = GetInterfaceDescriptionReply::deserialize(ObjDe(s));
    match &back {
        Ok(b) => match &b.description {
            Some(d) => assert!(ov.some && str_eq(d, &ov.s), "P:c17.description_roundtrip"),
            None => assert!(!ov.some, "P:c17.description_roundtrip"),
        },
        Err(_) => assert!(false, "P:c17.description_deserializes"),
    }
    std::mem::forget(back);
    std::mem::forget(v);
});

// ---- string sets ----------------------------------------------------------------------

pub fn cheap_finish(_h: &std::hash::DefaultHasher) -> u64 {
    0
}
pub fn cheap_write(_h: &mut std::hash::DefaultHasher, _b: &[u8]) {}
pub fn cheap_write_str(_h: &mut std::hash::DefaultHasher, _s: &str) {}

pub static mut INSERTED: usize = 0;
pub static mut INSERTED_FIRST: u8 = 0;

/// stands for HashSet<String>::insert inside the visitor (hashbrown's insert costs CBMC
/// minutes and is not the subject): counts the elements the visitor adds
pub fn hashset_insert_model<T, S, A: std::alloc::Allocator>(_s: &mut std::collections::HashSet<T, S, A>, v: T) -> bool {
    unsafe {
        if INSERTED == 0 {
            // only instantiated with T = String
            let st: &String = &*(&v as *const T as *const String);
            INSERTED_FIRST = if st.len() == 1 { st.as_bytes()[0] } else { 0 };
        }
        INSERTED += 1;
    }
    std::mem::forget(v);
    true
}

#[kani::proof]
#[kani::unwind(12)]
#[kani::stub(alloc::fmt::format, stubs::format)]
#[kani::stub(std::hash::RandomState::new, stubs::fixed_random_state)]
#[kani::stub(std::collections::HashSet::insert, hashset_insert_model)]
fn c17_stringset_deserialize() {
    let sv = draw_set(&mut KSrc);
    // the wire form of a string set: an object mapping each element to an empty object
    let mut s = MapScript::empty();
    s.emptymap("a", sv.has_a);
    s.emptymap("b", sv.has_b);
    unsafe {
        nde::PROTOCOL_BREACH = false;
        INSERTED = 0;
    }
    let back = StringHashSet::deserialize(ObjDe(s));
    let breach = unsafe { nde::PROTOCOL_BREACH };
    kani::cover!(sv.has_a && sv.has_b, "two elements");
    assert!(!breach, "P:c17.stringset_visitor_consumes_each_value");
    match &back {
        Ok(_) => {
            let n = unsafe { INSERTED };
            assert!(n == sv.has_a as usize + sv.has_b as usize, "P:c17.stringset_elements_roundtrip");
            if n > 0 {
                let first = unsafe { INSERTED_FIRST };
                assert!(first == if sv.has_a { b'a' } else { b'b' }, "P:c17.stringset_elements_roundtrip");
            }
        }
        Err(_) => assert!(false, "P:c17.stringset_deserializes_from_text_and_bytes"),
    }
    std::mem::forget(back);
}

#[kani::proof]
#[kani::unwind(12)]
#[kani::stub(alloc::fmt::format, stubs::format)]
#[kani::stub(std::hash::RandomState::new, stubs::fixed_random_state)]
#[kani::stub(<std::hash::DefaultHasher as std::hash::Hasher>::finish, cheap_finish)]
#[kani::stub(<std::hash::DefaultHasher as std::hash::Hasher>::write, cheap_write)]
#[kani::stub(<std::hash::DefaultHasher as std::hash::Hasher>::write_str, cheap_write_str)]
fn c17_stringset_serialize() {
    let has_a: bool = kani::any();
    let mut set = StringHashSet::new();
    if has_a {
        set.insert(String::from("a"));
    }
    let rec = unsafe {
        record_into(&set, &mut REC);
        &REC
    };
    kani::cover!(has_a, "one element");
    assert!(rec.top.k == tagser::MAP && rec.top.len == has_a as usize, "P:c17.stringset_is_an_object");
    if has_a {
        assert!(rec.dkeys[0].str_eq(b"a"), "P:c17.stringset_member_named_after_element");
        assert!(rec.vals[0].k == tagser::MAP && rec.vals[0].len == 0, "P:c17.stringset_member_is_empty_object");
    }
    std::mem::forget(set);
}

// the empty set is written as an empty object (and not, e.g., as null)
#[kani::proof]
#[kani::unwind(12)]
#[kani::stub(alloc::fmt::format, stubs::format)]
#[kani::stub(std::hash::RandomState::new, stubs::fixed_random_state)]
fn c17_stringset_serialize_empty() {
    let set = StringHashSet::new();
    let rec = unsafe {
        record_into(&set, &mut REC);
        &REC
    };
    kani::cover!(true, "empty set serialized");
    assert!(rec.top.k == tagser::MAP && rec.top.len == 0, "P:c17.empty_stringset_is_an_empty_object");
    std::mem::forget(set);
}
