// C07 (reduced) - a client connection carries one call at a time: the slot protocol of
// MethodCall::send / recv on one shared connection, sequentially.
use super::nde::MapScript;
use super::stubs;
use crate::{Connection, Error, ErrorKind, MethodCall};
use serde_json::Value;
use std::io::{BufReader, Read, Write};
use std::sync::{Arc, RwLock};

pub static mut W_WRITES: usize = 0;
pub static mut W_BYTES: usize = 0;
pub static mut R_READS: usize = 0;

struct GhostW;
impl Write for GhostW {
    fn write(&mut self, buf: &[u8]) -> std::io::Result<usize> {
        unsafe {
            W_WRITES += 1;
            W_BYTES += buf.len();
        }
        Ok(buf.len())
    }
    fn write_all(&mut self, buf: &[u8]) -> std::io::Result<()> {
        unsafe {
            W_WRITES += 1;
            W_BYTES += buf.len();
        }
        Ok(())
    }
    fn flush(&mut self) -> std::io::Result<()> {
        Ok(())
    }
}

/// delivers `frames` reply frames of two bytes each ('r', NUL), then EOF
struct FrameR {
    left: usize,
}
impl Read for FrameR {
    fn read(&mut self, buf: &mut [u8]) -> std::io::Result<usize> {
        unsafe { R_READS += 1 };
        if self.left == 0 || buf.len() < 2 {
            return Ok(0);
        }
        buf[0] = b'r';
        buf[1] = 0;
        self.left -= 1;
        Ok(2)
    }
}

fn connection(frames: usize) -> Arc<RwLock<Connection>> {
    let r: Box<dyn Read + Send + Sync> = Box::new(FrameR { left: frames });
    let w: Box<dyn Write + Send + Sync> = Box::new(GhostW);
    Arc::new(RwLock::new(Connection {
        reader: Some(BufReader::new(r)),
        writer: Some(w),
        address: String::new(),
        stream: None,
        child: None,
        tempdir: None,
    }))
}

fn slots(conn: &Arc<RwLock<Connection>>) -> (bool, bool) {
    let c = conn.read().unwrap();
    (c.reader.is_some(), c.writer.is_some())
}

fn kind_is(r: &std::result::Result<(), Error>, busy: bool) -> bool {
    match r {
        Err(e) => {
            if busy {
                matches!(e.kind(), ErrorKind::ConnectionBusy)
            } else {
                matches!(e.kind(), ErrorKind::MethodCalledAlready)
            }
        }
        Ok(_) => false,
    }
}

macro_rules! c07h {
    ($name:ident, $body:expr) => {
        #[kani::proof]
        #[kani::unwind(8)]
        #[kani::stub(serde_json::to_string, stubs::to_string)]
        #[kani::stub(serde_json::to_value, stubs::to_value)]
        #[kani::stub(serde_json::from_slice, stubs::from_slice)]
        #[kani::stub(serde_json::from_value, stubs::from_value)]
        #[kani::stub(alloc::fmt::format, stubs::format)]
        #[kani::stub(std::io::BufReader::new, stubs::small_bufreader)]
        #[kani::stub(core::slice::memchr::memchr, stubs::naive_memchr)]
        fn $name() {
            $body
        }
    };
}

// send() from an idle connection: a normal / more / upgrade call takes both slots and writes one
// request; a oneway call writes one request and leaves both slots in place. While a call owns
// the slots every other call is refused with ConnectionBusy without writing a byte; a call object
// can be sent only once.
c07h!(c07_send_slots, {
    let oneway: bool = kani::any();
    let more: bool = kani::any();
    let upgrade: bool = kani::any();
    let conn = connection(0);
    let mut a = MethodCall::<Value, Value, Error>::new(conn.clone(), "a.b.M", Value::Null);
    let mut b = MethodCall::<Value, Value, Error>::new(conn.clone(), "a.b.N", Value::Null);
    let r1 = a.send(oneway, more, upgrade);
    let writes1 = unsafe { W_WRITES };
    let (rs, ws) = slots(&conn);
    assert!(r1.is_ok(), "P:c07.send_on_idle_connection_succeeds");
    assert!(writes1 == 1, "P:c07.send_writes_exactly_one_request");
    let req = unsafe { &stubs::LAST_TS };
    assert!(req.name.len() == 7, "P:c07.what_is_written_is_a_request");
    if oneway {
        assert!(rs && ws, "P:c04.oneway_call_leaves_the_connection_idle");
        assert!(a.reader.is_none() && a.writer.is_none(), "P:c04.oneway_call_never_takes_the_reader");
    } else {
        assert!(!rs && !ws, "P:c07.outstanding_call_owns_both_slots");
        assert!(a.reader.is_some() && a.writer.is_some(), "P:c07.outstanding_call_owns_both_slots");
        // another call object on the same connection, while the first is outstanding
        let r2 = b.send(kani::any(), kani::any(), kani::any());
        assert!(kind_is(&r2, true), "P:c07.second_call_refused_with_connection_busy");
        assert!(unsafe { W_WRITES } == writes1, "P:c07.refused_call_writes_nothing");
        std::mem::forget(r2);
    }
    // the same call object again
    let r3 = a.send(kani::any(), kani::any(), kani::any());
    assert!(kind_is(&r3, false), "P:c07.call_object_can_be_sent_only_once");
    assert!(unsafe { W_WRITES } == writes1, "P:c07.refused_call_writes_nothing");
    kani::cover!(oneway, "oneway call");
    kani::cover!(!oneway && more, "more call");
    std::mem::forget(r1);
    std::mem::forget(r3);
    std::mem::forget(a);
    std::mem::forget(b);
    std::mem::forget(conn);
});
