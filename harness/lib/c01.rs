// C01 (+ the handle-level clauses of C04 and C06): the per-connection loop
// VarlinkService::handle on a stream of K framed messages, for every parse outcome,
// flag combination, target kind and method-implementation script.
use super::io::{ArrR, RecW, CUR_ORD};
use super::nde::{FvKind, MapScript};
use super::shared::c01::*;
use super::shared::src_trait::{KSrc, Src};
use super::stubs;
use super::tagser::key_eq;
use crate::{Call, CallTrait, ConnectionHandler, ErrorKind, Reply, VarlinkService};

pub static mut SCEN: C01 = C01 {
    k: 0,
    msgs: [Msg::blank(); KMAX],
};

pub fn install(sc: &C01, pmask: u8, fail_at: usize) {
    unsafe {
        SCEN = *sc;
        stubs::reset();
        stubs::N_PARSE = 0;
        let mut i = 0;
        while i < sc.k && i < KMAX {
            let m = &sc.msgs[i];
            let mut s = MapScript::empty();
            s.flag("more", m.more);
            s.flag("oneway", m.oneway);
            s.flag("upgrade", m.upgrade);
            s.string("method", method_of(m.target), true);
            // the parameters value stays opaque (from_value is answered from the scenario)
            // whether `parameters` is null/absent is a CONSTANT of the harness instance
            // (bit i of pmask): a symbolic Option<serde_json::Value> discriminant makes
            // Value's recursive clone/drop glue explode in CBMC (probe_m/probe_n)
            s.opaque("parameters", true, pmask & (1 << i) == 0);
            // concrete per harness instance: a symbolic Ok/Err merge of the parse result would
            // turn every field of the parsed Request into an if-then-else
            stubs::PARSE[i].ok = i != fail_at;
            stubs::PARSE[i].obj = s;
            stubs::FV[i] = match m.params {
                P_NONOBJECT => FvKind::NonObject,
                P_IFACE_REG | P_IFACE_UNKNOWN | P_IFACE_SERVICE => {
                    let mut n = MapScript::empty();
                    n.string(
                        "interface",
                        match m.params {
                            P_IFACE_REG => "a.b",
                            P_IFACE_UNKNOWN => "zz",
                            _ => "org.varlink.service",
                        },
                        true,
                    );
                    super::nde::NESTED[i] = n;
                    FvKind::Obj(i)
                }
                _ => FvKind::EmptyObj,
            };
            i += 1;
        }
    }
}

/// the method implementation of the registered interface `a.b`: runs the script the
/// scenario holds for the request being served
pub fn script_call(call: &mut Call) -> crate::Result<()> {
    let m = unsafe { SCEN.msgs[CUR_ORD as usize] };
    let mut i = 0;
    while i < m.nops as usize && i < MAXOPS {
        match m.ops[i] {
            OP_CONT_ON => call.set_continues(true),
            OP_CONT_OFF => call.set_continues(false),
            OP_REPLY => call.reply_struct(Reply::parameters(None))?,
            OP_REPLY_ERR => call.reply_struct(Reply::error("a.b.E", None))?,
            OP_INVALID_PARAM => call.reply_invalid_parameter(String::new())?,
            OP_FAIL => return Err(crate::context!(ErrorKind::Generic)),
            _ => call.to_upgraded(),
        }
        i += 1;
    }
    Ok(())
}

/// stands for the private VarlinkService::call (table lookup + dispatch); that function is
/// verified on its own by the C03 harnesses. The built-in interface is the real code.
pub fn dispatch_model(svc: &VarlinkService, iface: &str, call: &mut Call) -> crate::Result<()> {
    if key_eq(iface, "org.varlink.service") {
        crate::Interface::call(svc, call)
    } else if key_eq(iface, "a.b") {
        script_call(call)
    } else {
        call.reply_interface_not_found(Some(iface.into()))
    }
}

pub fn empty_service() -> VarlinkService {
    VarlinkService {
        info: crate::ServiceInfo {
            vendor: "v".into(),
            product: "p".into(),
            version: "1".into(),
            url: "u".into(),
            interfaces: Vec::new(),
        },
        ifaces: std::collections::HashMap::new(),
    }
}

fn check_stream<const N: usize>(k: usize, data: [u8; N], tail: &[u8], pmask: u8, fail_at: usize) {
    let mut src = KSrc;
    let sc = draw(&mut src, k);
    let mut j = 0;
    while j < k {
        let nonnull = sc.msgs[j].params != P_ABSENT && sc.msgs[j].params != P_NULL;
        kani::assume(nonnull == (pmask & (1 << j) != 0));
        kani::assume(sc.msgs[j].parse_ok == (j != fail_at));
        j += 1;
    }
    // the built-in GetInterfaceDescription consults the real (empty) table; the registered
    // case is covered by the C03 harnesses
    let mut j = 0;
    while j < k {
        kani::assume(!(sc.msgs[j].target == T_GETDESC && sc.msgs[j].params == P_IFACE_REG));
        j += 1;
    }
    install(&sc, pmask, fail_at);
    let svc = empty_service();
    let mut r = ArrR::<N>::new(data, N);
    let mut w = RecW::new();
    let res = svc.handle(&mut r, &mut w, None);

    // what the property demands
    let mut total = 0usize;
    let mut closed_at = k;
    let mut i = 0;
    while i < k {
        let e = expect(&sc.msgs[i]);
        let mut x = 0;
        while x < e.writes {
            let pos = total + x;
            assert!(pos < w.writes, "P:c01.reply_missing");
            assert!(w.ord[pos] as usize == i, "P:c01.reply_belongs_to_request_in_order");
            assert!(w.tag[pos] == b'R' && w.nul_terminated[pos], "P:c01.reply_is_framed_reply");
            assert!(
                (w.tag2[pos] == b'1') == e.cont[x],
                "P:c01.continues_flag_as_set_by_implementation"
            );
            assert!(w.tag3[pos] == e.err[x], "P:c01.reply_kind");
            x += 1;
        }
        total += e.writes;
        if e.closes {
            closed_at = i;
            break;
        }
        i += 1;
    }
    assert!(w.writes == total, "P:c01.no_extra_reply");
    let parsed = unsafe { stubs::N_PARSE };
    if closed_at < k {
        kani::cover!(closed_at == 1, "connection closed at the second request");
        assert!(res.is_err(), "P:c01.failing_request_closes_connection");
        assert!(parsed == closed_at + 1, "P:c01.nothing_served_after_close");
    } else {
        kani::cover!(w.writes >= 2, "all requests served, two or more replies");
        assert!(parsed == k, "P:c01.every_buffered_request_served");
        match &res {
            Ok((t, up)) => {
                assert!(up.is_none(), "P:c01.not_upgraded");
                assert!(t.len() == tail.len(), "P:c01.tail_is_incomplete_message");
                let mut q = 0;
                while q < tail.len() {
                    assert!(t[q] == tail[q], "P:c01.tail_is_incomplete_message");
                    q += 1;
                }
            }
            Err(_) => assert!(false, "P:c01.ok_when_all_served"),
        }
    }
    std::mem::forget(res);
    std::mem::forget(svc);
}

macro_rules! handle_harness {
    ($name:ident, $unwind:expr, $k:expr, $data:expr, $tail:expr, $pmask:expr, $fail:expr) => {
        #[kani::proof]
        #[kani::unwind($unwind)]
        #[kani::stub(core::slice::memchr::memchr, stubs::naive_memchr)]
        #[kani::stub(core::slice::memchr::memrchr, stubs::naive_memrchr)]
        #[kani::stub(std::io::BufReader::new, stubs::small_bufreader)]
        #[kani::stub(serde_json::to_string, stubs::to_string)]
        #[kani::stub(serde_json::to_value, stubs::to_value)]
        #[kani::stub(serde_json::from_slice, stubs::from_slice)]
        #[kani::stub(serde_json::from_value, stubs::from_value)]
        #[kani::stub(alloc::fmt::format, stubs::format)]
        #[kani::stub(alloc::string::String::from_utf8_lossy, stubs::from_utf8_lossy)]
        #[kani::stub(std::hash::RandomState::new, stubs::fixed_random_state)]
        #[kani::stub(crate::VarlinkService::call, dispatch_model)]
        #[kani::stub(<serde_json::Value as std::clone::Clone>::clone, stubs::value_clone_shallow)]
        fn $name() {
            check_stream($k, $data, $tail, $pmask, $fail);
        }
    };
}

// <name>_p<mask>_f<i>: bit j of the mask set = message j carries non-null `parameters`;
// message i is not valid JSON (f9: every message parses)
const NOFAIL: usize = 9;
handle_harness!(c01_stream_k1_p0_f9, 8, 1, [b'm', 0, b't'], b"t", 0, NOFAIL);
handle_harness!(c01_stream_k1_p1_f9, 8, 1, [b'm', 0, b't'], b"t", 1, NOFAIL);
handle_harness!(c01_stream_k1_p0_f0, 8, 1, [b'm', 0, b't'], b"t", 0, 0);
handle_harness!(c01_stream_k2_p0_f9, 8, 2, [b'm', 0, b'm', 0, b't'], b"t", 0, NOFAIL);
handle_harness!(c01_stream_k2_p1_f9, 8, 2, [b'm', 0, b'm', 0, b't'], b"t", 1, NOFAIL);
handle_harness!(c01_stream_k2_p2_f9, 8, 2, [b'm', 0, b'm', 0, b't'], b"t", 2, NOFAIL);
handle_harness!(c01_stream_k2_p3_f9, 8, 2, [b'm', 0, b'm', 0, b't'], b"t", 3, NOFAIL);
handle_harness!(c01_stream_k2_p0_f1, 8, 2, [b'm', 0, b'm', 0, b't'], b"t", 0, 1);
handle_harness!(c01_stream_k2_p1_f1, 8, 2, [b'm', 0, b'm', 0, b't'], b"t", 1, 1);
handle_harness!(c01_stream_k3_p0_f9, 8, 3, [b'm', 0, b'm', 0, b'm', 0], b"", 0, NOFAIL);
handle_harness!(c01_stream_k3_p5_f9, 8, 3, [b'm', 0, b'm', 0, b'm', 0], b"", 5, NOFAIL);
handle_harness!(c01_stream_k3_p2_f9, 8, 3, [b'm', 0, b'm', 0, b'm', 0], b"", 2, NOFAIL);
handle_harness!(c01_stream_k3_p7_f9, 8, 3, [b'm', 0, b'm', 0, b'm', 0], b"", 7, NOFAIL);
handle_harness!(c01_stream_k3_p3_f2, 8, 3, [b'm', 0, b'm', 0, b'm', 0], b"", 3, 2);
