// C01 / C02 (upgrade hand-over) / C06 (containment): the per-connection loop
// VarlinkService::handle on a stream of K framed messages.
use super::io::{ArrR, RecW, CUR_ORD};
use super::nde::MapScript;
use super::shared::c01::*;
use super::shared::src_trait::{KSrc, Src};
use super::stubs;
use super::tagser::pack;
use crate::{Call, CallTrait, ConnectionHandler, ErrorKind, VarlinkService};
use std::io::Write;

pub static mut SCEN: C01 = C01 {
    k: 0,
    msgs: [Msg::blank(); KMAX],
};

/// request flags of this harness instance (constants: a symbolic Option<bool> member makes the
/// derived visitor merge Ok/Err results, after which CBMC folds nothing downstream)
#[derive(Clone, Copy)]
pub struct Flags {
    pub more: Option<bool>,
    pub oneway: Option<bool>,
    pub upgrade: Option<bool>,
}
pub const NOFLAGS: Flags = Flags {
    more: None,
    oneway: None,
    upgrade: None,
};
pub static mut FLAGS: Flags = NOFLAGS;
/// outcome of the implementation serving message j, when it is a constant of the harness instance
/// (255: solver-chosen). With a constant Err the error value handle() receives is concrete, so a
/// changed handle() that drops it (swallows the error) stays within CBMC's reach.
pub static mut PIN_OUTCOME: [u8; KMAX] = [255; KMAX];
/// serde_json error category of the malformed message (constant of the harness instance)
pub static mut ERR_KIND: u8 = 0;

pub fn install(sc: &C01, fail_at: usize, flags: Flags) {
    unsafe {
        SCEN = *sc;
        FLAGS = flags;
        stubs::reset();
        stubs::N_PARSE = 0;
        let mut i = 0;
        while i < sc.k && i < KMAX {
            let m = &sc.msgs[i];
            let mut s = MapScript::empty();
            s.flag("more", flags.more);
            s.flag("oneway", flags.oneway);
            s.flag("upgrade", flags.upgrade);
            s.string("method", method_of(m.target), true);
            s.opaque("parameters", true, true);
            // concrete per harness instance (see Flags)
            stubs::PARSE[i].ok = i != fail_at;
            stubs::PARSE[i].err_kind = ERR_KIND;
            stubs::PARSE[i].obj = s;
            i += 1;
        }
    }
}

/// ghost record of what the loop handed to the dispatcher
pub static mut DISPATCHED: usize = 0;
pub static mut IFACE_OK: bool = true;
pub static mut REQUEST_OK: bool = true;

/// stands for the private VarlinkService::call (table lookup + dispatch to the built-in or a
/// registered interface), which is verified on its own by the C03 harnesses. Checks what it
/// is given, then behaves as the scenario says: writes n reply messages, then returns Ok,
/// returns Err, or asks for an upgrade.
pub fn dispatch_model(_svc: &VarlinkService, iface: &str, call: &mut Call) -> crate::Result<()> {
    // a malformed message must not be dispatched (see stubs::memrchr_guarded)
    assert!(!unsafe { stubs::PARSE_FAILED }, "P:c06.malformed_message_is_not_dispatched");
    let m = unsafe { SCEN.msgs[CUR_ORD as usize] };
    unsafe {
        DISPATCHED += 1;
        // the interface name is the method up to its last dot
        let want = iface_of(m.target).unwrap_or("?");
        if !super::tagser::key_eq(iface, want) {
            IFACE_OK = false;
        }
        // flags, method and parameters reach the implementation unchanged
        let ok = match call.request {
            Some(r) => {
                r.more == FLAGS.more
                    && r.oneway == FLAGS.oneway
                    && r.upgrade == FLAGS.upgrade
                    && super::tagser::key_eq(r.method.as_ref(), method_of(m.target))
                    && r.parameters.is_none()
            }
            None => false,
        };
        if !ok {
            REQUEST_OK = false;
        }
    }
    if m.target == T_UNKNOWN_IFACE {
        // no such interface in the table: what the real VarlinkService::call does
        return call.reply_interface_not_found(Some(iface.into()));
    }
    let mut i = 0;
    while i < m.nreplies && i < MAXREPLIES {
        let _ = call.writer.write_all(b"S\0");
        let _ = call.writer.flush();
        i += 1;
    }
    match m.outcome {
        O_OK => Ok(()),
        O_ERR => Err(crate::context!(ErrorKind::Generic)),
        _ => {
            call.to_upgraded();
            Ok(())
        }
    }
}

pub static mut INF_ARG_OK: bool = true;

/// stands for Call::reply_interface_not_found in the handle-level harnesses (the real function
/// is one of the reply paths verified by C04): checks that it is given the whole method name
/// and writes one tagged InterfaceNotFound reply.
pub fn inf_model<'a>(call: &mut Call<'a>, arg: Option<String>) -> crate::Result<()>
where
    'a: 'a, // early-bound, like the impl's lifetime parameter
{
    // a malformed message must not be answered (see stubs::memrchr_guarded)
    assert!(!unsafe { stubs::PARSE_FAILED }, "P:c06.malformed_message_is_not_answered");
    let m = unsafe { SCEN.msgs[CUR_ORD as usize] };
    // a method without interface part is named in full; an unregistered interface by its name
    let want = if m.target == T_UNKNOWN_IFACE { "x.y" } else { method_of(m.target) };
    let ok = match &arg {
        Some(a) => super::tagser::key_eq(a.as_str(), want),
        None => false,
    };
    if !ok {
        unsafe { INF_ARG_OK = false };
    }
    std::mem::forget(arg);
    let _ = call.writer.write_all(b"R-I\0");
    let _ = call.writer.flush();
    Ok(())
}

pub fn empty_service() -> VarlinkService {
    VarlinkService {
        info: crate::ServiceInfo {
            vendor: "v".into(),
            product: "p".into(),
            version: "1".into(),
            url: "u".into(),
            interfaces: Vec::new(),
        },
        ifaces: std::collections::HashMap::new(),
    }
}

/// `data` holds k messages of two bytes each ('m', NUL) followed by `tail`
fn check_stream<const N: usize>(k: usize, data: [u8; N], tail: &[u8], fail_at: usize, flags: Flags, targets: [u8; KMAX]) {
    let mut src = KSrc;
    let mut sc = draw(&mut src, k);
    let mut j = 0;
    while j < k {
        // constants of the harness instance: whether message j parses and which loop path its
        // method name selects; what the dispatched implementation does stays symbolic
        kani::assume(sc.msgs[j].parse_ok == (j != fail_at));
        kani::assume(sc.msgs[j].target == targets[j]);
        sc.msgs[j].parse_ok = j != fail_at;
        sc.msgs[j].target = targets[j];
        let pin = unsafe { PIN_OUTCOME[j] };
        if pin != 255 {
            kani::assume(sc.msgs[j].outcome == pin);
            sc.msgs[j].outcome = pin;
        }
        j += 1;
    }
    install(&sc, fail_at, flags);
    let svc = empty_service();
    let mut r = ArrR::<N>::new(data, N);
    let mut w = RecW::new();
    let res = svc.handle(&mut r, &mut w, None);

    // what the property demands
    let mut total = 0usize;
    let mut stop_at = k; // first request that closes or upgrades
    let mut closes = false;
    let mut upgrades = false;
    let mut i = 0;
    while i < k {
        let e = expect(&sc.msgs[i]);
        let mut x = 0;
        while x < e.script_replies {
            let pos = total + x;
            assert!(pos < w.writes, "P:c01.reply_missing");
            assert!(w.ord[pos] as usize == i && w.tag[pos] == b'S', "P:c01.reply_belongs_to_request_in_order");
            x += 1;
        }
        total += e.script_replies;
        if e.iface_not_found {
            assert!(total < w.writes, "P:c01.reply_missing");
            assert!(w.ord[total] as usize == i, "P:c01.reply_belongs_to_request_in_order");
            assert!(
                w.tag[total] == b'R' && w.tag3[total] == stubs::ERR_IFACE_NOT_FOUND && w.nul_terminated[total],
                "P:c01.method_without_interface_answered_interface_not_found"
            );
            total += 1;
        }
        if e.closes || e.upgraded {
            stop_at = i;
            closes = e.closes;
            upgrades = e.upgraded;
            break;
        }
        i += 1;
    }
    assert!(w.writes == total, "P:c01.no_extra_reply");
    assert!(unsafe { IFACE_OK }, "P:c03.interface_is_method_up_to_last_dot");
    assert!(unsafe { INF_ARG_OK }, "P:c03.interface_not_found_names_the_method_without_dot");
    assert!(unsafe { REQUEST_OK }, "P:c03.request_reaches_implementation_unchanged");
    let parsed = unsafe { stubs::N_PARSE };
    if closes {
        assert!(res.is_err(), "P:c01.failing_request_closes_connection");
        assert!(parsed == stop_at + 1, "P:c01.nothing_served_after_close");
    } else if upgrades {
        // C02: the loop stops; every byte after the upgrade request stays available, in order,
        // exactly once: the returned buffer remainder followed by what the reader still holds
        assert!(parsed == stop_at + 1, "P:c02.nothing_parsed_after_upgrade");
        let after = 2 * (stop_at + 1);
        match &res {
            Ok((rest, up)) => {
                assert!(up.is_some(), "P:c02.upgrade_reports_interface");
                let unread = r.len - r.pos;
                assert!(rest.len() + unread == N - after, "P:c02.no_byte_lost_or_duplicated_after_upgrade");
                let mut q = 0;
                while q < rest.len() {
                    assert!(rest[q] == data[after + q], "P:c02.bytes_after_upgrade_in_order");
                    q += 1;
                }
            }
            Err(_) => assert!(false, "P:c02.upgrade_is_not_an_error"),
        }
    } else {
        assert!(parsed == k, "P:c01.every_buffered_request_served");
        match &res {
            Ok((t, up)) => {
                assert!(up.is_none(), "P:c01.not_upgraded");
                assert!(t.len() == tail.len(), "P:c01.tail_is_incomplete_message");
                let mut q = 0;
                while q < tail.len() {
                    assert!(t[q] == tail[q], "P:c01.tail_is_incomplete_message");
                    q += 1;
                }
            }
            Err(_) => assert!(false, "P:c01.ok_when_all_served"),
        }
    }
    // vacuity guard: some execution gets through handle() and the whole oracle
    kani::cover!(parsed >= 1, "handle() returned and the oracle was evaluated");
    std::mem::forget(res);
    std::mem::forget(svc);
}

macro_rules! handle_harness {
    ($name:ident, $unwind:expr, $k:expr, $data:expr, $tail:expr, $fail:expr, $flags:expr, $targets:expr) => {
        #[kani::proof]
        #[kani::unwind($unwind)]
        #[kani::stub(core::slice::memchr::memchr, stubs::naive_memchr)]
        #[kani::stub(core::slice::memchr::memrchr, stubs::memrchr_guarded)]
        #[kani::stub(std::io::BufReader::new, stubs::small_bufreader)]
        #[kani::stub(serde_json::to_string, stubs::to_string)]
        #[kani::stub(serde_json::to_value, stubs::to_value)]
        #[kani::stub(serde_json::from_slice, stubs::from_slice)]
        #[kani::stub(alloc::fmt::format, stubs::format)]
        #[kani::stub(alloc::string::String::from_utf8_lossy, stubs::from_utf8_lossy)]
        #[kani::stub(std::hash::RandomState::new, stubs::fixed_random_state)]
        #[kani::stub(crate::VarlinkService::call, dispatch_model)]
        #[kani::stub(crate::Call::reply_interface_not_found, inf_model)]
        fn $name() {
            check_stream($k, $data, $tail, $fail, $flags, $targets);
        }
    };
}

// name: k<messages>_<target per message: d dispatched, n no dot, e empty>[_f<i>: message i is
// not valid JSON][_flags: request carries flags]
const NOFAIL: usize = 9;
const SOMEFLAGS: Flags = Flags {
    more: Some(true),
    oneway: Some(false),
    upgrade: None,
};
const D: u8 = T_DISPATCH;
const NO: u8 = T_NODOT;
const E: u8 = T_EMPTY;
const M1: [u8; 3] = [b'm', 0, b't'];
const M2: [u8; 5] = [b'm', 0, b'm', 0, b't'];
const M3: [u8; 6] = [b'm', 0, b'm', 0, b'm', 0];
handle_harness!(c01_k1_d, 8, 1, M1, b"t", NOFAIL, NOFLAGS, [D, D, D]);
handle_harness!(c01_k1_n, 8, 1, M1, b"t", NOFAIL, NOFLAGS, [NO, D, D]);
handle_harness!(c01_k1_e, 8, 1, M1, b"t", NOFAIL, NOFLAGS, [E, D, D]);
handle_harness!(c06_k1_malformed, 8, 1, M1, b"t", 0, NOFLAGS, [D, D, D]);

macro_rules! malformed_kind_harness {
    ($name:ident, $k:expr, $data:expr, $tail:expr, $fail:expr, $kind:expr) => {
        #[kani::proof]
        #[kani::unwind(8)]
        #[kani::stub(core::slice::memchr::memchr, stubs::naive_memchr)]
        #[kani::stub(core::slice::memchr::memrchr, stubs::memrchr_guarded)]
        #[kani::stub(std::io::BufReader::new, stubs::small_bufreader)]
        #[kani::stub(serde_json::to_string, stubs::to_string)]
        #[kani::stub(serde_json::to_value, stubs::to_value)]
        #[kani::stub(serde_json::from_slice, stubs::from_slice)]
        #[kani::stub(alloc::fmt::format, stubs::format)]
        #[kani::stub(alloc::string::String::from_utf8_lossy, stubs::from_utf8_lossy)]
        #[kani::stub(std::hash::RandomState::new, stubs::fixed_random_state)]
        #[kani::stub(crate::VarlinkService::call, dispatch_model)]
        #[kani::stub(crate::Call::reply_interface_not_found, inf_model)]
        fn $name() {
            unsafe { ERR_KIND = $kind };
            check_stream($k, $data, $tail, $fail, NOFLAGS, [D, D, D]);
        }
    };
}
macro_rules! pinned_outcome_harness {
    ($name:ident, $k:expr, $data:expr, $tail:expr, $pins:expr) => {
        #[kani::proof]
        #[kani::unwind(8)]
        #[kani::stub(core::slice::memchr::memchr, stubs::naive_memchr)]
        #[kani::stub(core::slice::memchr::memrchr, stubs::memrchr_guarded)]
        #[kani::stub(std::io::BufReader::new, stubs::small_bufreader)]
        #[kani::stub(serde_json::to_string, stubs::to_string)]
        #[kani::stub(serde_json::to_value, stubs::to_value)]
        #[kani::stub(serde_json::from_slice, stubs::from_slice)]
        #[kani::stub(alloc::fmt::format, stubs::format)]
        #[kani::stub(alloc::string::String::from_utf8_lossy, stubs::from_utf8_lossy)]
        #[kani::stub(std::hash::RandomState::new, stubs::fixed_random_state)]
        #[kani::stub(crate::VarlinkService::call, dispatch_model)]
        #[kani::stub(crate::Call::reply_interface_not_found, inf_model)]
        fn $name() {
            unsafe { PIN_OUTCOME = $pins };
            check_stream($k, $data, $tail, NOFAIL, NOFLAGS, [D, D, D]);
        }
    };
}
// the implementation serving the first (second) message fails / upgrades; the rest is solver-chosen
pinned_outcome_harness!(c01_k2_err_first, 2, M2, b"t", [O_ERR, 255, 255]);
pinned_outcome_harness!(c01_k3_err_second, 3, M3, b"", [O_OK, O_ERR, 255]);
pinned_outcome_harness!(c01_k2_upgrade_first, 2, M2, b"t", [O_UPGRADE, 255, 255]);

// the malformed message is a truncated document (serde_json error category Eof)
malformed_kind_harness!(c06_k1_truncated, 1, M1, b"t", 0, 1);
malformed_kind_harness!(c06_k2_first_truncated, 2, M2, b"t", 0, 1);
malformed_kind_harness!(c06_k2_second_truncated, 2, M2, b"t", 1, 1);
// the malformed message is valid JSON of the wrong shape (serde_json error category Data)
malformed_kind_harness!(c06_k1_wrong_shape, 1, M1, b"t", 0, 2);
malformed_kind_harness!(c06_k2_first_wrong_shape, 2, M2, b"t", 0, 2);
malformed_kind_harness!(c06_k2_second_wrong_shape, 2, M2, b"t", 1, 2);

handle_harness!(c01_k1_d_flags, 8, 1, M1, b"t", NOFAIL, SOMEFLAGS, [D, D, D]);
const OTHERFLAGS: Flags = Flags {
    more: Some(false),
    oneway: Some(true),
    upgrade: Some(true),
};
handle_harness!(c01_k2_dd_flags2, 8, 2, M2, b"t", NOFAIL, OTHERFLAGS, [D, D, D]);
handle_harness!(c01_k2_dd, 8, 2, M2, b"t", NOFAIL, NOFLAGS, [D, D, D]);
const U: u8 = T_UNKNOWN_IFACE;
handle_harness!(c01_k1_u, 8, 1, M1, b"t", NOFAIL, NOFLAGS, [U, D, D]);
handle_harness!(c01_k2_ud, 8, 2, M2, b"t", NOFAIL, NOFLAGS, [U, D, D]);
handle_harness!(c01_k2_du, 8, 2, M2, b"t", NOFAIL, NOFLAGS, [D, U, D]);
handle_harness!(c01_k3_dud, 8, 3, M3, b"", NOFAIL, NOFLAGS, [D, U, D]);
handle_harness!(c01_k2_nd, 8, 2, M2, b"t", NOFAIL, NOFLAGS, [NO, D, D]);
handle_harness!(c01_k2_dn, 8, 2, M2, b"t", NOFAIL, NOFLAGS, [D, NO, D]);
handle_harness!(c01_k2_ed, 8, 2, M2, b"t", NOFAIL, NOFLAGS, [E, D, D]);
handle_harness!(c01_k2_nn, 8, 2, M2, b"t", NOFAIL, NOFLAGS, [NO, NO, D]);
handle_harness!(c06_k2_second_malformed, 8, 2, M2, b"t", 1, NOFLAGS, [D, D, D]);
handle_harness!(c06_k2_first_malformed, 8, 2, M2, b"t", 0, NOFLAGS, [D, D, D]);
handle_harness!(c01_k3_ddd, 8, 3, M3, b"", NOFAIL, NOFLAGS, [D, D, D]);
handle_harness!(c01_k3_dnd, 8, 3, M3, b"", NOFAIL, NOFLAGS, [D, NO, D]);
handle_harness!(c03_split_leading_dot, 8, 1, M1, b"t", NOFAIL, NOFLAGS, [T_LEADING_DOT, D, D]);
handle_harness!(c03_split_double_dot, 8, 1, M1, b"t", NOFAIL, NOFLAGS, [T_DOUBLE_DOT, D, D]);
handle_harness!(c03_split_trailing_dot, 8, 1, M1, b"t", NOFAIL, NOFLAGS, [T_TRAILING_DOT, D, D]);
handle_harness!(c03_split_service, 8, 1, M1, b"t", NOFAIL, NOFLAGS, [T_SERVICE, D, D]);
handle_harness!(c01_k3_ddd_f2, 8, 3, M3, b"", 2, NOFLAGS, [D, D, D]);

// ---- C02: framing does not depend on segmentation ---------------------------------------
// The 5-byte stream 'm' NUL 'm' NUL 't' fed at once, and fed in two chunks cut at a constant
// offset with the returned tail prepended to the second chunk (the documented caller
// protocol), must produce the same replies and the same final tail.

fn check_two_chunks(cut: usize) {
    const S: [u8; 5] = M2;
    let mut src = KSrc;
    let mut sc = draw(&mut src, 2);
    let mut j = 0;
    while j < 2 {
        kani::assume(sc.msgs[j].parse_ok && sc.msgs[j].target == T_DISPATCH && sc.msgs[j].outcome == O_OK);
        sc.msgs[j].parse_ok = true;
        sc.msgs[j].target = T_DISPATCH;
        sc.msgs[j].outcome = O_OK;
        j += 1;
    }
    let svc = empty_service();

    // A: the whole stream at once
    install(&sc, NOFAIL, NOFLAGS);
    let mut ra = ArrR::<5>::new(S, 5);
    let mut wa = RecW::new();
    let res_a = svc.handle(&mut ra, &mut wa, None);

    // B: two chunks
    install(&sc, NOFAIL, NOFLAGS);
    let mut wb = RecW::new();
    let mut d1 = [0u8; 5];
    let mut i = 0;
    while i < cut {
        d1[i] = S[i];
        i += 1;
    }
    let mut r1 = ArrR::<5>::new(d1, cut);
    let res_1 = svc.handle(&mut r1, &mut wb, None);
    let mut d2 = [0u8; 10];
    let mut n2 = 0;
    match &res_1 {
        Ok((t, up)) => {
            assert!(up.is_none(), "P:c02.chunk_not_upgraded");
            assert!(t.len() <= 5, "P:c02.tail_not_longer_than_chunk");
            let mut q = 0;
            while q < t.len() && q < 5 {
                d2[n2] = t[q];
                n2 += 1;
                q += 1;
            }
        }
        Err(_) => assert!(false, "P:c02.first_chunk_served"),
    }
    let mut q = cut;
    while q < 5 {
        d2[n2] = S[q];
        n2 += 1;
        q += 1;
    }
    let mut r2 = ArrR::<10>::new(d2, n2);
    let res_2 = svc.handle(&mut r2, &mut wb, None);

    kani::cover!(wa.writes >= 2, "two or more replies");
    assert!(wa.writes == wb.writes, "P:c02.same_number_of_replies_for_every_segmentation");
    let mut x = 0;
    while x < wa.writes && x < super::io::WCAP {
        assert!(wa.tag[x] == wb.tag[x] && wa.ord[x] == wb.ord[x], "P:c02.same_replies_in_same_order");
        x += 1;
    }
    match (&res_a, &res_2) {
        (Ok((ta, _)), Ok((tb, ub))) => {
            assert!(ub.is_none(), "P:c02.chunk_not_upgraded");
            assert!(ta.len() == 1 && ta[0] == b't', "P:c02.tail_is_bytes_after_last_complete_message");
            assert!(tb.len() == 1 && tb[0] == b't', "P:c02.tail_is_bytes_after_last_complete_message");
        }
        _ => assert!(false, "P:c02.stream_served"),
    }
    std::mem::forget(res_a);
    std::mem::forget(res_1);
    std::mem::forget(res_2);
    std::mem::forget(svc);
}

macro_rules! cut_harness {
    ($name:ident, $cut:expr) => {
        #[kani::proof]
        #[kani::unwind(12)]
        #[kani::stub(core::slice::memchr::memchr, stubs::naive_memchr)]
        #[kani::stub(core::slice::memchr::memrchr, stubs::memrchr_guarded)]
        #[kani::stub(std::io::BufReader::new, stubs::small_bufreader)]
        #[kani::stub(serde_json::to_string, stubs::to_string)]
        #[kani::stub(serde_json::to_value, stubs::to_value)]
        #[kani::stub(serde_json::from_slice, stubs::from_slice)]
        #[kani::stub(alloc::fmt::format, stubs::format)]
        #[kani::stub(alloc::string::String::from_utf8_lossy, stubs::from_utf8_lossy)]
        #[kani::stub(std::hash::RandomState::new, stubs::fixed_random_state)]
        #[kani::stub(crate::VarlinkService::call, dispatch_model)]
        fn $name() {
            check_two_chunks($cut);
        }
    };
}
cut_harness!(c02_cut0, 0);
cut_harness!(c02_cut1, 1);
cut_harness!(c02_cut2, 2);
cut_harness!(c02_cut3, 3);
cut_harness!(c02_cut4, 4);
cut_harness!(c02_cut5, 5);

// ---- C02: an upgraded connection: handle(.., Some(interface)) hands the whole stream over ----
// The next handle() call after an upgrade must route straight to the upgraded handler: nothing is
// parsed as a varlink message, the handler can read every byte in order, and what it reports as
// unread comes back as the tail together with the interface name.

pub static mut UP_SEEN: [u8; 8] = [0; 8];
pub static mut UP_N: usize = 0;
pub static mut UP_CALLS: usize = 0;
pub static mut UP_IFACE_OK: bool = false;
pub static mut UP_KEEP: usize = 0;

/// stands for the private VarlinkService::call_upgraded (table lookup + the interface's upgraded
/// handler): reads the stream to its end through the reader it is given, keeps the last UP_KEEP
/// bytes as "unread"
pub fn upgraded_model(
    _svc: &VarlinkService,
    iface: &str,
    _call: &mut Call,
    bufreader: &mut dyn std::io::BufRead,
) -> crate::Result<Vec<u8>> {
    unsafe {
        UP_CALLS += 1;
        UP_IFACE_OK = super::tagser::key_eq(iface, "a.b");
    }
    let mut rounds = 0;
    while rounds < 4 {
        let n = match bufreader.fill_buf() {
            Ok(b) => {
                let mut i = 0;
                while i < b.len() {
                    unsafe {
                        if UP_N < 8 {
                            UP_SEEN[UP_N] = b[i];
                        }
                        UP_N += 1;
                    }
                    i += 1;
                }
                b.len()
            }
            Err(_) => 0,
        };
        if n == 0 {
            break;
        }
        bufreader.consume(n);
        rounds += 1;
    }
    let keep = unsafe { UP_KEEP };
    let mut unread = Vec::with_capacity(2);
    let total = unsafe { UP_N };
    let mut i = total - keep;
    while i < total {
        unread.push(unsafe { UP_SEEN[i] });
        i += 1;
    }
    Ok(unread)
}

#[kani::proof]
#[kani::unwind(10)]
#[kani::stub(core::slice::memchr::memchr, stubs::naive_memchr)]
#[kani::stub(core::slice::memchr::memrchr, stubs::memrchr_guarded)]
#[kani::stub(std::io::BufReader::new, stubs::small_bufreader)]
#[kani::stub(serde_json::to_string, stubs::to_string)]
#[kani::stub(serde_json::to_value, stubs::to_value)]
#[kani::stub(serde_json::from_slice, stubs::from_slice)]
#[kani::stub(alloc::fmt::format, stubs::format)]
#[kani::stub(alloc::string::String::from_utf8_lossy, stubs::from_utf8_lossy)]
#[kani::stub(std::hash::RandomState::new, stubs::fixed_random_state)]
#[kani::stub(crate::VarlinkService::call, dispatch_model)]
#[kani::stub(crate::VarlinkService::call_upgraded, upgraded_model)]
#[kani::stub(crate::Call::reply_interface_not_found, inf_model)]
fn c02_upgraded_entry() {
    // the upgraded protocol's bytes are arbitrary (NULs included): nothing may be framed or parsed
    let (data, keep) = draw_upgraded(&mut KSrc);
    unsafe {
        UP_KEEP = keep;
        stubs::reset();
        stubs::N_PARSE = 0;
    }
    let svc = empty_service();
    let mut r = ArrR::<5>::new(data, 5);
    let mut w = RecW::new();
    let res = svc.handle(&mut r, &mut w, Some(String::from("a.b")));
    let (calls, n, iface_ok, parsed) = unsafe { (UP_CALLS, UP_N, UP_IFACE_OK, stubs::N_PARSE) };
    kani::cover!(keep == 1, "handler leaves one byte unread");
    assert!(calls == 1 && iface_ok, "P:c02.upgraded_call_goes_to_the_upgraded_interface");
    assert!(parsed == 0 && unsafe { DISPATCHED } == 0, "P:c02.upgraded_stream_is_not_parsed_as_messages");
    assert!(w.writes == 0, "P:c02.handle_writes_nothing_on_an_upgraded_stream");
    assert!(n == 5, "P:c02.upgraded_handler_can_read_every_byte_exactly_once");
    let mut i = 0;
    while i < 5 {
        assert!(unsafe { UP_SEEN[i] } == data[i], "P:c02.upgraded_handler_reads_bytes_in_order");
        i += 1;
    }
    match &res {
        Ok((tail, up)) => {
            assert!(tail.len() == keep, "P:c02.unread_bytes_come_back_as_tail");
            if keep == 1 {
                assert!(tail[0] == data[4], "P:c02.unread_bytes_come_back_as_tail");
            }
            match up {
                Some(name) => assert!(super::tagser::key_eq(name, "a.b"), "P:c02.connection_stays_upgraded_to_the_same_interface"),
                None => assert!(false, "P:c02.connection_stays_upgraded_to_the_same_interface"),
            }
        }
        Err(_) => assert!(false, "P:c02.upgraded_call_is_not_an_error"),
    }
    std::mem::forget(res);
    std::mem::forget(svc);
}
