// C05 (server half) — `continues` only answers `more`: the gate in Call::reply_struct,
// driven by every script of <= 3 ops for every flag combination.
use super::io::RecW;
use super::shared::c05::*;
use super::shared::src_trait::KSrc;
use super::stubs;
use crate::{Call, CallTrait, ErrorKind, Reply, Request};
use std::borrow::Cow;

#[kani::proof]
#[kani::unwind(12)]
#[kani::stub(serde_json::to_string, stubs::to_string)]
#[kani::stub(serde_json::to_value, stubs::to_value)]
#[kani::stub(alloc::fmt::format, stubs::format)]
fn c05_gate() {
    let sc = draw(&mut KSrc);
    let req = Request {
        more: sc.more,
        oneway: sc.oneway,
        upgrade: sc.upgrade,
        method: Cow::Borrowed("a.b.M"),
        parameters: None,
    };
    let mut w = RecW::new();
    let mut failed_at = NOPS;
    let mut mismatch_kind = false;
    let mut writes_before_failure = 0;
    {
        let mut call = Call::new(&mut w, &req);
        let mut i = 0;
        while i < sc.n as usize && i < NOPS {
            let r = match sc.ops[i] {
                OP_CONT_ON => {
                    call.set_continues(true);
                    Ok(())
                }
                OP_CONT_OFF => {
                    call.set_continues(false);
                    Ok(())
                }
                OP_REPLY => call.reply_struct(Reply::parameters(None)),
                _ => call.reply_struct(Reply::error("a.b.E", None)),
            };
            if let Err(e) = r {
                failed_at = i;
                mismatch_kind = matches!(e.kind(), ErrorKind::CallContinuesMismatch);
                std::mem::forget(e);
                break;
            }
            i += 1;
        }
    }
    let e = expect(&sc);
    kani::cover!(e.writes == 2 && e.cont[0], "two replies, the first one with continues");
    kani::cover!(e.mismatch_at == 1, "continues without more at the second op");
    assert!(failed_at == e.mismatch_at, "P:c05.continues_without_more_is_refused_and_nothing_else_is");
    if failed_at < NOPS {
        assert!(mismatch_kind, "P:c05.refusal_is_call_continues_mismatch");
    }
    assert!(w.writes == e.writes, "P:c05.refused_reply_writes_nothing_and_others_write_once");
    let mut x = 0;
    while x < e.writes && x < NOPS {
        assert!(w.tag[x] == b'R' && w.nul_terminated[x], "P:c05.reply_framed");
        assert!((w.tag2[x] == b'1') == e.cont[x], "P:c05.continues_flag_only_when_set");
        if w.tag2[x] == b'1' {
            assert!(sc.more == Some(true), "P:c05.continues_on_the_wire_only_for_more");
        }
        assert!((w.tag3[x] != stubs::ERR_NONE) == e.is_err[x], "P:c05.reply_kind");
        x += 1;
    }
}
