// Harness root mounted as `crate::server::verif_server` (cfg(kani) only): a child of the
// private `server` module, so ThreadPool, Worker, Message, activation_listener are visible.
#![allow(dead_code, unused_imports, static_mut_refs)]

#[path = "server/c14.rs"]
mod c14;
#[path = "server/c16.rs"]
mod c16;
