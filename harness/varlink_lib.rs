// Harness root for the `varlink` crate overlay; mounted as `crate::verif_lib` (cfg(kani) only).
// A child of the crate root, so every private item of lib.rs is visible here.
#![allow(dead_code, unused_imports, static_mut_refs)]

#[path = "shared/mod.rs"]
pub mod shared;
#[path = "support/io.rs"]
pub mod io;
#[path = "support/tagser.rs"]
pub mod tagser;
#[path = "support/nde.rs"]
pub mod nde;
#[path = "support/stubs.rs"]
pub mod stubs;

#[path = "lib/probes.rs"]
mod probes;
#[path = "lib/c01.rs"]
pub mod c01;
#[path = "lib/c03.rs"]
mod c03;
#[path = "lib/c04.rs"]
mod c04;
#[path = "lib/c05.rs"]
mod c05;
// lib/c07.rs (MethodCall::send slot protocol) is kept for the record but not mounted: out of memory
// after 530 s (DESIGN.md section 5, C07)
#[path = "lib/c17.rs"]
mod c17;
