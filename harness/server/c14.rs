// C14 — the worker pool respects its bound and never strands an accepted connection.
// One inductive step of the acceptor (the real ThreadPool::execute) from an arbitrary state
// that satisfies the representation invariant; thread creation and the channel are ghost
// counters (Kani is sequential; mpsc::Sender::send crashes kani-compiler 0.68).
use super::super::*;
use crate::verif_lib::shared::c14::{draw, invariant};
use crate::verif_lib::shared::src_trait::KSrc;
use std::sync::mpsc;

pub static mut SPAWNED: usize = 0;
pub static mut SENT: usize = 0;

fn worker_new_stub(_r: Arc<Mutex<mpsc::Receiver<Message>>>, _n: Arc<RwLock<usize>>) -> Worker {
    unsafe { SPAWNED += 1 };
    std::mem::forget(_r);
    std::mem::forget(_n);
    Worker { thread: None }
}

fn send_stub<T>(_s: &mpsc::Sender<T>, t: T) -> std::result::Result<(), mpsc::SendError<T>> {
    unsafe { SENT += 1 };
    std::mem::forget(t);
    Ok(())
}

fn mk_pool(workers: usize, max: usize, busy: usize) -> ThreadPool {
    let (sender, receiver) = mpsc::channel();
    let mut ws = Vec::with_capacity(10);
    let mut i = 0;
    while i < workers {
        ws.push(Worker { thread: None });
        i += 1;
    }
    ThreadPool {
        max_workers: max,
        workers: ws,
        num_busy: Arc::new(RwLock::new(busy)),
        sender,
        receiver: Arc::new(Mutex::new(receiver)),
    }
}

#[kani::proof]
#[kani::unwind(12)]
#[kani::stub(Worker::new, worker_new_stub)]
#[kani::stub(std::sync::mpsc::Sender::send, send_stub)]
fn c14_execute_step_b8() {
    execute_step(8);
}

#[kani::proof]
#[kani::unwind(8)]
#[kani::stub(Worker::new, worker_new_stub)]
#[kani::stub(std::sync::mpsc::Sender::send, send_stub)]
fn c14_execute_step() {
    execute_step(5);
}

fn execute_step(bound: u8) {
    let sc = draw(&mut KSrc, bound);
    let (w, max, o) = (sc.workers as usize, sc.max as usize, sc.outstanding as usize);
    kani::assume(invariant(w, max, o));
    // the pool's busy counter stands for the unfinished connections (submitted, not done)
    let mut pool = mk_pool(w, max, o);
    pool.execute(|| {});
    let w2 = pool.workers.len();
    let busy2 = pool.num_busy();
    let sent = unsafe { SENT };
    let spawned = unsafe { SPAWNED };
    std::mem::forget(pool);

    kani::cover!(w == max, "pool already at its bound");
    kani::cover!(o == w && w < max, "every worker occupied, room to grow");
    assert!(sent == 1, "P:c14.connection_enqueued_exactly_once");
    assert!(w2 == w + spawned, "P:c14.workers_vector_tracks_spawned_threads");
    assert!(w2 <= max, "P:c14.never_more_workers_than_max");
    assert!(busy2 == o + 1, "P:c14.busy_counts_unfinished_connections");
    assert!(invariant(w2, max, o + 1), "P:c14.accepted_connection_has_a_worker_unless_at_max");
}

#[kani::proof]
#[kani::unwind(8)]
#[kani::stub(Worker::new, worker_new_stub)]
fn c14_new_establishes_invariant() {
    let initial: usize = kani::any();
    let max: usize = kani::any();
    kani::assume(initial >= 1 && initial <= 5 && max >= 1 && max <= 5);
    let pool = ThreadPool::new(initial, max);
    let w = pool.workers.len();
    let busy = pool.num_busy();
    let m = pool.max_workers;
    let spawned = unsafe { SPAWNED };
    std::mem::forget(pool);
    kani::cover!(initial == max, "initial == max");
    assert!(w == initial && spawned == initial, "P:c14.new_spawns_initial_workers");
    assert!(busy == 0, "P:c14.new_starts_idle");
    assert!(m == max, "P:c14.new_records_max");
    // documented precondition: initial_worker_threads <= max_worker_threads
    assert!(invariant(w, m, 0) == (initial <= max), "P:c14.new_invariant_iff_initial_le_max");
}

// ---- worker side: the real closure of Worker::new, run inline -------------------------

pub static mut Q: [*mut u8; 4] = [std::ptr::null_mut(); 4];
pub static mut QH: usize = 0;
pub static mut QT: usize = 0;
pub static mut BUSY_SEEN_IN_JOB: usize = usize::MAX;
pub static mut JOBS_RUN: usize = 0;
pub static mut COUNTER: *const RwLock<usize> = std::ptr::null();

fn recv_stub<T>(_r: &mpsc::Receiver<T>) -> std::result::Result<T, mpsc::RecvError> {
    unsafe {
        if QH == QT {
            return Err(mpsc::RecvError);
        }
        let p = Q[QH] as *mut T;
        QH += 1;
        Ok(*Box::from_raw(p))
    }
}

fn spawn_inline<F, T>(f: F) -> std::thread::JoinHandle<T>
where
    F: FnOnce() -> T + Send + 'static,
    T: Send + 'static,
{
    let r = f();
    std::mem::forget(r);
    // never joined, never dropped: the harness forgets the Worker
    #[allow(invalid_value)]
    unsafe {
        std::mem::MaybeUninit::<std::thread::JoinHandle<T>>::uninit().assume_init()
    }
}

fn enqueue(m: Message) {
    unsafe {
        Q[QT] = Box::into_raw(Box::new(m)) as *mut u8;
        QT += 1;
    }
}

#[kani::proof]
#[kani::unwind(4)]
#[kani::stub(std::thread::spawn, spawn_inline)]
#[kani::stub(std::sync::mpsc::Receiver::recv, recv_stub)]
fn c14_worker_protocol() {
    let pre: usize = kani::any();
    kani::assume(pre >= 1 && pre <= 5);
    let (_s, receiver) = mpsc::channel::<Message>();
    let receiver = Arc::new(Mutex::new(receiver));
    let num_busy = Arc::new(RwLock::new(pre));
    unsafe { COUNTER = Arc::as_ptr(&num_busy) };
    // one connection job, then shutdown
    enqueue(Message::NewJob(Box::new(|| unsafe {
        JOBS_RUN += 1;
        BUSY_SEEN_IN_JOB = *(*COUNTER).read().unwrap();
    })));
    enqueue(Message::Terminate);
    let worker = Worker::new(Arc::clone(&receiver), Arc::clone(&num_busy));
    std::mem::forget(worker);
    let after = *num_busy.read().unwrap();
    let (seen, runs, qh) = unsafe { (BUSY_SEEN_IN_JOB, JOBS_RUN, QH) };
    assert!(runs == 1, "P:c14.worker_runs_each_job_once");
    assert!(qh == 2, "P:c14.worker_stops_at_terminate");
    // a connection stays counted while it is being served, and is uncounted when done
    assert!(seen == pre, "P:c14.job_counted_busy_while_served");
    assert!(after == pre - 1, "P:c14.job_uncounted_when_done");
}
