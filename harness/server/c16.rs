// C16 — a server honours socket activation only when LISTEN_PID names it, and picks the
// descriptor the environment designates: the real activation_listener over an arbitrary
// environment.
use super::super::*;
use crate::verif_lib::shared::c16::*;
use crate::verif_lib::shared::src_trait::KSrc;
use std::ffi::OsStr;

static mut ENV: Activation = Activation {
    fds: EnvStr { present: false, len: 0, b: [0; 2] },
    pid: EnvStr { present: false, len: 0, b: [0; 2] },
    names_present: false,
    names: 0,
};

fn os_eq(a: &OsStr, b: &str) -> bool {
    let (a, b) = (a.as_encoded_bytes(), b.as_bytes());
    if a.len() != b.len() {
        return false;
    }
    let mut i = 0;
    while i < a.len() {
        if a[i] != b[i] {
            return false;
        }
        i += 1;
    }
    true
}

fn mk(e: &EnvStr) -> std::result::Result<String, env::VarError> {
    if !e.present {
        return Err(env::VarError::NotPresent);
    }
    // the length is a constant of the harness instance (see `activation`)
    let v: Vec<u8> = match e.len {
        0 => Vec::new(),
        1 => Vec::from([e.b[0]]),
        _ => Vec::from([e.b[0], e.b[1]]),
    };
    Ok(unsafe { String::from_utf8_unchecked(v) })
}

fn env_var_stub<K: AsRef<OsStr>>(key: K) -> std::result::Result<String, env::VarError> {
    let k = key.as_ref();
    let a = unsafe { ENV };
    if os_eq(k, "LISTEN_FDS") {
        mk(&a.fds)
    } else if os_eq(k, "LISTEN_PID") {
        mk(&a.pid)
    } else if os_eq(k, "LISTEN_FDNAMES") {
        if a.names_present {
            Ok(String::from(FDNAMES[a.names as usize]))
        } else {
            Err(env::VarError::NotPresent)
        }
    } else {
        Err(env::VarError::NotPresent)
    }
}

fn pid_stub() -> u32 {
    OWN_PID
}

fn activation(names: Option<u8>, fds_len: usize) {
    let mut a = draw_activation(&mut KSrc);
    // LISTEN_FDNAMES and the string lengths are constants of the harness instance (strings of
    // symbolic length, and splitting an if-then-else of strings, make the query explode);
    // the characters are symbolic
    match names {
        None => kani::assume(!a.names_present),
        Some(i) => kani::assume(a.names_present && a.names == i),
    }
    kani::assume(a.fds.len == fds_len && a.pid.len == 2);
    a.fds.len = fds_len;
    a.pid.len = 2;
    a.names_present = names.is_some();
    a.names = names.unwrap_or(0);
    unsafe { ENV = a };
    let got = activation_listener();
    let want = expected_fd(&a);
    // vacuity guard (whether activation is possible at all depends on the instance)
    kani::cover!(a.pid.present, "activation decision evaluated with LISTEN_PID present");
    assert!(got.is_some() == want.is_some(), "P:c16.activation_honoured_iff_listen_pid_names_this_process");
    assert!(got == want, "P:c16.activation_descriptor");
}

macro_rules! act {
    ($name:ident, $names:expr, $fl:expr) => {
        #[kani::proof]
        #[kani::unwind(16)]
        #[kani::stub(std::env::var, env_var_stub)]
        #[kani::stub(std::process::id, pid_stub)]
        #[kani::stub(core::slice::memchr::memchr, crate::verif_lib::stubs::naive_memchr)]
        fn $name() {
            activation($names, $fl);
        }
    };
}

act!(c16_activation_nonames, None, 2);
act!(c16_activation_names0, Some(0), 2); // "varlink"
act!(c16_activation_names1, Some(1), 2); // "a:varlink"
act!(c16_activation_names2, Some(2), 2); // "a:b"
act!(c16_activation_names5, Some(5), 2); // "a:b:varlink"
act!(c16_activation_names6, Some(6), 2); // "varlinkx:varlink"
act!(c16_activation_names7, Some(7), 2); // "a:varlinkx"
act!(c16_activation_names8, Some(8), 2); // "xvarlink:b"
act!(c16_activation_fds1_nonames, None, 1);
act!(c16_activation_fds1_names1, Some(1), 1);
act!(c16_activation_fds0, None, 0);

// ---- address schemes: client and server alike ---------------------------------------------

static mut CALLED: [u8; 2] = [0; 2]; // scheme class of the constructor reached by [server, client]
static mut ARG_PTR: [usize; 2] = [0; 2];
static mut ARG_LEN: [usize; 2] = [0; 2];
static mut SIDE: usize = 0;

fn note(scheme: u8, s: &str) {
    unsafe {
        CALLED[SIDE] = scheme;
        ARG_PTR[SIDE] = s.as_ptr() as usize;
        ARG_LEN[SIDE] = s.len();
    }
}

fn io_err<T>() -> std::io::Result<T> {
    Err(std::io::Error::from(std::io::ErrorKind::Other))
}

fn tcp_bind_stub<A: std::net::ToSocketAddrs>(addr: A) -> std::io::Result<TcpListener> {
    // only instantiated with A = &str
    note(SCHEME_TCP, unsafe { *(&addr as *const A as *const &str) });
    io_err()
}
fn tcp_connect_stub<A: std::net::ToSocketAddrs>(addr: A) -> std::io::Result<TcpStream> {
    note(SCHEME_TCP, unsafe { *(&addr as *const A as *const &str) });
    io_err()
}
fn unix_bind_stub<P: AsRef<std::path::Path>>(path: P) -> std::io::Result<UnixListener> {
    note(SCHEME_UNIX, unsafe { *(&path as *const P as *const &str) });
    io_err()
}
fn unix_connect_stub<P: AsRef<std::path::Path>>(path: P) -> std::io::Result<UnixStream> {
    note(SCHEME_UNIX, unsafe { *(&path as *const P as *const &str) });
    io_err()
}
fn remove_file_stub<P: AsRef<std::path::Path>>(_path: P) -> std::io::Result<()> {
    Ok(())
}
fn abstract_listener_stub(addr: &str) -> Result<UnixListener> {
    note(SCHEME_ABSTRACT, addr);
    Err(context!(ErrorKind::Io(std::io::ErrorKind::Other)))
}
fn abstract_stream_stub(addr: &str) -> Result<UnixStream> {
    note(SCHEME_ABSTRACT, addr);
    Err(context!(ErrorKind::Io(std::io::ErrorKind::Other)))
}
fn no_activation() -> Option<usize> {
    None
}

#[kani::proof]
#[kani::unwind(12)]
#[kani::stub(std::net::TcpListener::bind, tcp_bind_stub)]
#[kani::stub(std::net::TcpStream::connect, tcp_connect_stub)]
#[kani::stub(std::os::unix::net::UnixListener::bind, unix_bind_stub)]
#[kani::stub(std::os::unix::net::UnixStream::connect, unix_connect_stub)]
#[kani::stub(std::fs::remove_file, remove_file_stub)]
#[kani::stub(get_abstract_unixlistener, abstract_listener_stub)]
#[kani::stub(crate::client::get_abstract_unixstream, abstract_stream_stub)]
#[kani::stub(activation_listener, no_activation)]
#[kani::stub(core::slice::memchr::memchr, crate::verif_lib::stubs::naive_memchr)]
#[kani::stub(core::slice::memchr::memrchr, crate::verif_lib::stubs::naive_memrchr)]
#[kani::stub(alloc::fmt::format, crate::verif_lib::stubs::format)]
fn c16_scheme() {
    let a = draw_addr(&mut KSrc);
    let text = unsafe { std::str::from_utf8_unchecked(&a.b) };
    let (scheme, from, to) = classify(&a);

    unsafe { SIDE = 0 };
    let rs = Listener::new(text);
    let server_invalid = match &rs {
        Err(e) => matches!(e.kind(), ErrorKind::InvalidAddress),
        Ok(_) => false,
    };
    std::mem::forget(rs);
    unsafe { SIDE = 1 };
    let rc = crate::client::varlink_connect(text);
    let client_invalid = match &rc {
        Err(e) => matches!(e.kind(), ErrorKind::InvalidAddress),
        Ok(_) => false,
    };
    std::mem::forget(rc);

    kani::cover!(scheme == SCHEME_ABSTRACT, "abstract unix address");
    kani::cover!(scheme == SCHEME_TCP, "tcp address");
    assert!(server_invalid == (scheme == SCHEME_NONE), "P:c16.server_rejects_exactly_the_other_schemes");
    assert!(client_invalid == (scheme == SCHEME_NONE), "P:c16.client_rejects_exactly_the_other_schemes");
    let (called, ptr, len) = unsafe { (CALLED, ARG_PTR, ARG_LEN) };
    assert!(called[0] == scheme && called[1] == scheme, "P:c16.client_and_server_pick_the_same_transport");
    if scheme != SCHEME_NONE {
        let base = a.b.as_ptr() as usize;
        assert!(ptr[0] == base + from && len[0] == to - from, "P:c16.server_socket_name_is_the_address_part");
        // the client works on its own copy of the address: compare position and length
        assert!(len[1] == to - from, "P:c16.client_socket_name_is_the_address_part");
    }
}
