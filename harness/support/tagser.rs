// Recording serializer ("TokSer" in DESIGN 1.2): a serde::Serializer that runs the
// real Serialize impls of /repo (derived and hand-written) and records what they
// emit at the serde data-model level, instead of formatting JSON text.
//
// It stands in for serde_json::{to_string,to_value}; serde_json's byte formatting
// (third-party) is outside every claim that uses it.
//
// Written for CBMC: tokens are three scalars, records are written in place through a
// reference (no large by-value moves through `?`), strings keep length + first 8 bytes.

use serde::ser::{self, Serialize};

pub const SMAX: usize = 8; // bytes of a string kept
pub const FMAX: usize = 6; // fields / entries kept

pub const ABSENT: u8 = 0; // field not emitted at all
pub const UNIT: u8 = 1; // unit / none (JSON null)
pub const BOOL: u8 = 2;
pub const NUM: u8 = 3;
pub const STR: u8 = 4;
pub const SEQ: u8 = 5;
pub const MAP: u8 = 6;
pub const STRUCT: u8 = 7;
pub const OTHER: u8 = 8;

#[derive(Clone, Copy, PartialEq, Debug)]
pub struct Tok {
    pub k: u8,
    /// STR: byte length; SEQ/MAP/STRUCT: number of elements
    pub len: usize,
    /// BOOL: 0/1; STR: first 8 bytes, little endian
    pub w: u64,
}

impl Tok {
    pub const fn new(k: u8) -> Tok {
        Tok { k, len: 0, w: 0 }
    }
    pub const fn absent() -> Tok {
        Tok::new(ABSENT)
    }
    pub fn boolean(b: bool) -> Tok {
        Tok {
            k: BOOL,
            len: 0,
            w: b as u64,
        }
    }
    pub fn is_absent(&self) -> bool {
        self.k == ABSENT
    }
    pub fn as_bool(&self) -> Option<bool> {
        if self.k == BOOL {
            Some(self.w == 1)
        } else {
            None
        }
    }
    pub fn byte(&self, i: usize) -> u8 {
        (self.w >> (8 * i)) as u8
    }
    /// equality with a byte string of at most SMAX bytes
    pub fn str_eq(&self, s: &[u8]) -> bool {
        self.k == STR && self.len == s.len() && self.w == pack(s)
    }
}

pub fn pack(bytes: &[u8]) -> u64 {
    let mut w: u64 = 0;
    let mut i = 0;
    while i < bytes.len() && i < SMAX {
        w |= (bytes[i] as u64) << (8 * i);
        i += 1;
    }
    w
}

/// byte-wise comparison without memcmp (cheaper for CBMC than the slice `==` intrinsic)
pub fn key_eq(a: &str, b: &str) -> bool {
    let (a, b) = (a.as_bytes(), b.as_bytes());
    if a.len() != b.len() {
        return false;
    }
    let mut i = 0;
    while i < a.len() {
        if a[i] != b[i] {
            return false;
        }
        i += 1;
    }
    true
}

pub fn tok_of_str(s: &str) -> Tok {
    Tok {
        k: STR,
        len: s.len(),
        w: pack(s.as_bytes()),
    }
}

/// One recorded top-level value.
#[derive(Clone, Copy, Debug)]
pub struct Rec {
    pub top: Tok,
    pub name: &'static str, // struct name, "" if not a struct
    pub n: usize,           // fields / entries emitted
    pub keys: [&'static str; FMAX], // struct field names
    pub dkeys: [Tok; FMAX], // map keys (dynamic)
    pub vals: [Tok; FMAX],
    pub skipped: usize,
    /// elements of the first sequence-valued field (struct) or of the top-level sequence
    pub seq_n: usize,
    pub seq: [Tok; FMAX],
}

impl Rec {
    pub const fn empty() -> Rec {
        Rec {
            top: Tok::absent(),
            name: "",
            n: 0,
            keys: [""; FMAX],
            dkeys: [Tok::absent(); FMAX],
            vals: [Tok::absent(); FMAX],
            skipped: 0,
            seq_n: 0,
            seq: [Tok::absent(); FMAX],
        }
    }
    /// value recorded for a struct field; absent if the field was not emitted
    pub fn field(&self, key: &str) -> Tok {
        let mut i = 0;
        while i < self.n && i < FMAX {
            if key_eq(self.keys[i], key) {
                return self.vals[i];
            }
            i += 1;
        }
        Tok::absent()
    }
    /// number of emitted fields with that name
    pub fn count(&self, key: &str) -> usize {
        let mut i = 0;
        let mut c = 0;
        while i < self.n && i < FMAX {
            if key_eq(self.keys[i], key) {
                c += 1;
            }
            i += 1;
        }
        c
    }
}

#[derive(Debug)]
pub struct SErr;
impl std::fmt::Display for SErr {
    fn fmt(&self, _f: &mut std::fmt::Formatter) -> std::fmt::Result {
        Ok(())
    }
}
impl std::error::Error for SErr {}
impl ser::Error for SErr {
    fn custom<T: std::fmt::Display>(_msg: T) -> Self {
        SErr
    }
}

type R<T> = std::result::Result<T, SErr>;

/// Serializer for values below the top level: yields one Tok. If `seq` is given, the
/// elements of a sequence are written there.
pub struct TokSer<'a> {
    pub seq: Option<&'a mut Rec>,
}

pub struct Nested<'a> {
    kind: u8,
    n: usize,
    seq: Option<&'a mut Rec>,
}

macro_rules! scalar {
    ($f:ident, $t:ty, $k:expr) => {
        fn $f(self, _v: $t) -> R<Tok> {
            Ok(Tok::new($k))
        }
    };
}

impl<'a> ser::Serializer for TokSer<'a> {
    type Ok = Tok;
    type Error = SErr;
    type SerializeSeq = Nested<'a>;
    type SerializeTuple = Nested<'a>;
    type SerializeTupleStruct = Nested<'a>;
    type SerializeTupleVariant = Nested<'a>;
    type SerializeMap = Nested<'a>;
    type SerializeStruct = Nested<'a>;
    type SerializeStructVariant = Nested<'a>;

    fn serialize_bool(self, v: bool) -> R<Tok> {
        Ok(Tok::boolean(v))
    }
    scalar!(serialize_i8, i8, NUM);
    scalar!(serialize_i16, i16, NUM);
    scalar!(serialize_i32, i32, NUM);
    scalar!(serialize_i64, i64, NUM);
    scalar!(serialize_u8, u8, NUM);
    scalar!(serialize_u16, u16, NUM);
    scalar!(serialize_u32, u32, NUM);
    scalar!(serialize_u64, u64, NUM);
    scalar!(serialize_f32, f32, NUM);
    scalar!(serialize_f64, f64, NUM);
    scalar!(serialize_char, char, OTHER);
    scalar!(serialize_bytes, &[u8], OTHER);
    fn serialize_str(self, v: &str) -> R<Tok> {
        Ok(tok_of_str(v))
    }
    fn serialize_none(self) -> R<Tok> {
        Ok(Tok::new(UNIT))
    }
    fn serialize_some<T: ?Sized + Serialize>(self, value: &T) -> R<Tok> {
        value.serialize(self)
    }
    fn serialize_unit(self) -> R<Tok> {
        Ok(Tok::new(UNIT))
    }
    fn serialize_unit_struct(self, _name: &'static str) -> R<Tok> {
        Ok(Tok::new(UNIT))
    }
    fn serialize_unit_variant(self, _n: &'static str, _i: u32, variant: &'static str) -> R<Tok> {
        Ok(tok_of_str(variant))
    }
    fn serialize_newtype_struct<T: ?Sized + Serialize>(self, _n: &'static str, value: &T) -> R<Tok> {
        value.serialize(self)
    }
    fn serialize_newtype_variant<T: ?Sized + Serialize>(
        self,
        _n: &'static str,
        _i: u32,
        _v: &'static str,
        _value: &T,
    ) -> R<Tok> {
        Ok(Tok::new(OTHER))
    }
    fn serialize_seq(self, _len: Option<usize>) -> R<Nested<'a>> {
        Ok(Nested {
            kind: SEQ,
            n: 0,
            seq: self.seq,
        })
    }
    fn serialize_tuple(self, _len: usize) -> R<Nested<'a>> {
        self.serialize_seq(None)
    }
    fn serialize_tuple_struct(self, _n: &'static str, _len: usize) -> R<Nested<'a>> {
        self.serialize_seq(None)
    }
    fn serialize_tuple_variant(self, _n: &'static str, _i: u32, _v: &'static str, _len: usize) -> R<Nested<'a>> {
        self.serialize_seq(None)
    }
    fn serialize_map(self, _len: Option<usize>) -> R<Nested<'a>> {
        Ok(Nested {
            kind: MAP,
            n: 0,
            seq: None,
        })
    }
    fn serialize_struct(self, _n: &'static str, _len: usize) -> R<Nested<'a>> {
        Ok(Nested {
            kind: STRUCT,
            n: 0,
            seq: None,
        })
    }
    fn serialize_struct_variant(self, _n: &'static str, _i: u32, _v: &'static str, _len: usize) -> R<Nested<'a>> {
        Ok(Nested {
            kind: STRUCT,
            n: 0,
            seq: None,
        })
    }
}

impl<'a> Nested<'a> {
    fn finish(self) -> R<Tok> {
        Ok(Tok {
            k: self.kind,
            len: self.n,
            w: 0,
        })
    }
    fn elem<T: ?Sized + Serialize>(&mut self, value: &T) -> R<()> {
        let t = value.serialize(LeafSer)?;
        if let Some(rec) = self.seq.as_mut() {
            if rec.seq_n < FMAX {
                rec.seq[rec.seq_n] = t;
            }
            rec.seq_n += 1;
        }
        self.n += 1;
        Ok(())
    }
}

impl<'a> ser::SerializeSeq for Nested<'a> {
    type Ok = Tok;
    type Error = SErr;
    fn serialize_element<T: ?Sized + Serialize>(&mut self, value: &T) -> R<()> {
        self.elem(value)
    }
    fn end(self) -> R<Tok> {
        self.finish()
    }
}
impl<'a> ser::SerializeTuple for Nested<'a> {
    type Ok = Tok;
    type Error = SErr;
    fn serialize_element<T: ?Sized + Serialize>(&mut self, value: &T) -> R<()> {
        self.elem(value)
    }
    fn end(self) -> R<Tok> {
        self.finish()
    }
}
impl<'a> ser::SerializeTupleStruct for Nested<'a> {
    type Ok = Tok;
    type Error = SErr;
    fn serialize_field<T: ?Sized + Serialize>(&mut self, value: &T) -> R<()> {
        self.elem(value)
    }
    fn end(self) -> R<Tok> {
        self.finish()
    }
}
impl<'a> ser::SerializeTupleVariant for Nested<'a> {
    type Ok = Tok;
    type Error = SErr;
    fn serialize_field<T: ?Sized + Serialize>(&mut self, value: &T) -> R<()> {
        self.elem(value)
    }
    fn end(self) -> R<Tok> {
        self.finish()
    }
}
impl<'a> ser::SerializeMap for Nested<'a> {
    type Ok = Tok;
    type Error = SErr;
    fn serialize_key<T: ?Sized + Serialize>(&mut self, _key: &T) -> R<()> {
        self.n += 1;
        Ok(())
    }
    fn serialize_value<T: ?Sized + Serialize>(&mut self, _value: &T) -> R<()> {
        Ok(())
    }
    fn end(self) -> R<Tok> {
        self.finish()
    }
}
impl<'a> ser::SerializeStruct for Nested<'a> {
    type Ok = Tok;
    type Error = SErr;
    fn serialize_field<T: ?Sized + Serialize>(&mut self, _key: &'static str, _value: &T) -> R<()> {
        self.n += 1;
        Ok(())
    }
    fn end(self) -> R<Tok> {
        self.finish()
    }
}
impl<'a> ser::SerializeStructVariant for Nested<'a> {
    type Ok = Tok;
    type Error = SErr;
    fn serialize_field<T: ?Sized + Serialize>(&mut self, _key: &'static str, _value: &T) -> R<()> {
        self.n += 1;
        Ok(())
    }
    fn end(self) -> R<Tok> {
        self.finish()
    }
}

/// Serializer for elements two levels down: scalars and strings are recorded, compound
/// values are only classified (their children are not visited), which keeps the call graph
/// finite for recursive types such as serde_json::Value.
pub struct LeafSer;

pub struct LeafAgg {
    kind: u8,
}

impl LeafAgg {
    fn done(self) -> R<Tok> {
        Ok(Tok::new(self.kind))
    }
}

impl ser::Serializer for LeafSer {
    type Ok = Tok;
    type Error = SErr;
    type SerializeSeq = LeafAgg;
    type SerializeTuple = LeafAgg;
    type SerializeTupleStruct = LeafAgg;
    type SerializeTupleVariant = LeafAgg;
    type SerializeMap = LeafAgg;
    type SerializeStruct = LeafAgg;
    type SerializeStructVariant = LeafAgg;

    fn serialize_bool(self, v: bool) -> R<Tok> {
        Ok(Tok::boolean(v))
    }
    scalar!(serialize_i8, i8, NUM);
    scalar!(serialize_i16, i16, NUM);
    scalar!(serialize_i32, i32, NUM);
    scalar!(serialize_i64, i64, NUM);
    scalar!(serialize_u8, u8, NUM);
    scalar!(serialize_u16, u16, NUM);
    scalar!(serialize_u32, u32, NUM);
    scalar!(serialize_u64, u64, NUM);
    scalar!(serialize_f32, f32, NUM);
    scalar!(serialize_f64, f64, NUM);
    scalar!(serialize_char, char, OTHER);
    scalar!(serialize_bytes, &[u8], OTHER);
    fn serialize_str(self, v: &str) -> R<Tok> {
        Ok(tok_of_str(v))
    }
    fn serialize_none(self) -> R<Tok> {
        Ok(Tok::new(UNIT))
    }
    fn serialize_some<T: ?Sized + Serialize>(self, _value: &T) -> R<Tok> {
        Ok(Tok::new(OTHER))
    }
    fn serialize_unit(self) -> R<Tok> {
        Ok(Tok::new(UNIT))
    }
    fn serialize_unit_struct(self, _name: &'static str) -> R<Tok> {
        Ok(Tok::new(UNIT))
    }
    fn serialize_unit_variant(self, _n: &'static str, _i: u32, variant: &'static str) -> R<Tok> {
        Ok(tok_of_str(variant))
    }
    fn serialize_newtype_struct<T: ?Sized + Serialize>(self, _n: &'static str, _value: &T) -> R<Tok> {
        Ok(Tok::new(OTHER))
    }
    fn serialize_newtype_variant<T: ?Sized + Serialize>(
        self,
        _n: &'static str,
        _i: u32,
        _v: &'static str,
        _value: &T,
    ) -> R<Tok> {
        Ok(Tok::new(OTHER))
    }
    fn serialize_seq(self, _len: Option<usize>) -> R<LeafAgg> {
        Ok(LeafAgg { kind: SEQ })
    }
    fn serialize_tuple(self, _len: usize) -> R<LeafAgg> {
        Ok(LeafAgg { kind: SEQ })
    }
    fn serialize_tuple_struct(self, _n: &'static str, _len: usize) -> R<LeafAgg> {
        Ok(LeafAgg { kind: SEQ })
    }
    fn serialize_tuple_variant(self, _n: &'static str, _i: u32, _v: &'static str, _len: usize) -> R<LeafAgg> {
        Ok(LeafAgg { kind: SEQ })
    }
    fn serialize_map(self, _len: Option<usize>) -> R<LeafAgg> {
        Ok(LeafAgg { kind: MAP })
    }
    fn serialize_struct(self, _n: &'static str, _len: usize) -> R<LeafAgg> {
        Ok(LeafAgg { kind: STRUCT })
    }
    fn serialize_struct_variant(self, _n: &'static str, _i: u32, _v: &'static str, _len: usize) -> R<LeafAgg> {
        Ok(LeafAgg { kind: STRUCT })
    }
}

impl ser::SerializeSeq for LeafAgg {
    type Ok = Tok;
    type Error = SErr;
    fn serialize_element<T: ?Sized + Serialize>(&mut self, _value: &T) -> R<()> {
        Ok(())
    }
    fn end(self) -> R<Tok> {
        self.done()
    }
}
impl ser::SerializeTuple for LeafAgg {
    type Ok = Tok;
    type Error = SErr;
    fn serialize_element<T: ?Sized + Serialize>(&mut self, _value: &T) -> R<()> {
        Ok(())
    }
    fn end(self) -> R<Tok> {
        self.done()
    }
}
impl ser::SerializeTupleStruct for LeafAgg {
    type Ok = Tok;
    type Error = SErr;
    fn serialize_field<T: ?Sized + Serialize>(&mut self, _value: &T) -> R<()> {
        Ok(())
    }
    fn end(self) -> R<Tok> {
        self.done()
    }
}
impl ser::SerializeTupleVariant for LeafAgg {
    type Ok = Tok;
    type Error = SErr;
    fn serialize_field<T: ?Sized + Serialize>(&mut self, _value: &T) -> R<()> {
        Ok(())
    }
    fn end(self) -> R<Tok> {
        self.done()
    }
}
impl ser::SerializeMap for LeafAgg {
    type Ok = Tok;
    type Error = SErr;
    fn serialize_key<T: ?Sized + Serialize>(&mut self, _key: &T) -> R<()> {
        Ok(())
    }
    fn serialize_value<T: ?Sized + Serialize>(&mut self, _value: &T) -> R<()> {
        Ok(())
    }
    fn end(self) -> R<Tok> {
        self.done()
    }
}
impl ser::SerializeStruct for LeafAgg {
    type Ok = Tok;
    type Error = SErr;
    fn serialize_field<T: ?Sized + Serialize>(&mut self, _key: &'static str, _value: &T) -> R<()> {
        Ok(())
    }
    fn end(self) -> R<Tok> {
        self.done()
    }
}
impl ser::SerializeStructVariant for LeafAgg {
    type Ok = Tok;
    type Error = SErr;
    fn serialize_field<T: ?Sized + Serialize>(&mut self, _key: &'static str, _value: &T) -> R<()> {
        Ok(())
    }
    fn end(self) -> R<Tok> {
        self.done()
    }
}

/// Top-level serializer: records struct fields / map entries one level deep into `*rec`.
pub struct TopSer<'a> {
    pub rec: &'a mut Rec,
}

pub struct TopAgg<'a> {
    rec: &'a mut Rec,
    kind: u8,
    pending_key: Tok,
}

macro_rules! top_scalar {
    ($f:ident, $t:ty, $k:expr) => {
        fn $f(self, _v: $t) -> R<()> {
            self.rec.top = Tok::new($k);
            Ok(())
        }
    };
}

impl<'a> ser::Serializer for TopSer<'a> {
    type Ok = ();
    type Error = SErr;
    type SerializeSeq = TopAgg<'a>;
    type SerializeTuple = TopAgg<'a>;
    type SerializeTupleStruct = TopAgg<'a>;
    type SerializeTupleVariant = TopAgg<'a>;
    type SerializeMap = TopAgg<'a>;
    type SerializeStruct = TopAgg<'a>;
    type SerializeStructVariant = TopAgg<'a>;

    fn serialize_bool(self, v: bool) -> R<()> {
        self.rec.top = Tok::boolean(v);
        Ok(())
    }
    top_scalar!(serialize_i8, i8, NUM);
    top_scalar!(serialize_i16, i16, NUM);
    top_scalar!(serialize_i32, i32, NUM);
    top_scalar!(serialize_i64, i64, NUM);
    top_scalar!(serialize_u8, u8, NUM);
    top_scalar!(serialize_u16, u16, NUM);
    top_scalar!(serialize_u32, u32, NUM);
    top_scalar!(serialize_u64, u64, NUM);
    top_scalar!(serialize_f32, f32, NUM);
    top_scalar!(serialize_f64, f64, NUM);
    top_scalar!(serialize_char, char, OTHER);
    top_scalar!(serialize_bytes, &[u8], OTHER);
    fn serialize_str(self, v: &str) -> R<()> {
        self.rec.top = tok_of_str(v);
        Ok(())
    }
    fn serialize_none(self) -> R<()> {
        self.rec.top = Tok::new(UNIT);
        Ok(())
    }
    fn serialize_some<T: ?Sized + Serialize>(self, value: &T) -> R<()> {
        value.serialize(self)
    }
    fn serialize_unit(self) -> R<()> {
        self.rec.top = Tok::new(UNIT);
        Ok(())
    }
    fn serialize_unit_struct(self, name: &'static str) -> R<()> {
        self.rec.top = Tok::new(UNIT);
        self.rec.name = name;
        Ok(())
    }
    fn serialize_unit_variant(self, _n: &'static str, _i: u32, variant: &'static str) -> R<()> {
        self.rec.top = tok_of_str(variant);
        Ok(())
    }
    fn serialize_newtype_struct<T: ?Sized + Serialize>(self, _n: &'static str, value: &T) -> R<()> {
        value.serialize(self)
    }
    fn serialize_newtype_variant<T: ?Sized + Serialize>(
        self,
        _n: &'static str,
        _i: u32,
        _v: &'static str,
        _value: &T,
    ) -> R<()> {
        self.rec.top = Tok::new(OTHER);
        Ok(())
    }
    fn serialize_seq(self, _len: Option<usize>) -> R<TopAgg<'a>> {
        Ok(TopAgg {
            rec: self.rec,
            kind: SEQ,
            pending_key: Tok::absent(),
        })
    }
    fn serialize_tuple(self, _len: usize) -> R<TopAgg<'a>> {
        self.serialize_seq(None)
    }
    fn serialize_tuple_struct(self, _n: &'static str, _len: usize) -> R<TopAgg<'a>> {
        self.serialize_seq(None)
    }
    fn serialize_tuple_variant(self, _n: &'static str, _i: u32, _v: &'static str, _len: usize) -> R<TopAgg<'a>> {
        self.serialize_seq(None)
    }
    fn serialize_map(self, _len: Option<usize>) -> R<TopAgg<'a>> {
        Ok(TopAgg {
            rec: self.rec,
            kind: MAP,
            pending_key: Tok::absent(),
        })
    }
    fn serialize_struct(self, name: &'static str, _len: usize) -> R<TopAgg<'a>> {
        self.rec.name = name;
        Ok(TopAgg {
            rec: self.rec,
            kind: STRUCT,
            pending_key: Tok::absent(),
        })
    }
    fn serialize_struct_variant(self, name: &'static str, _i: u32, _v: &'static str, _len: usize) -> R<TopAgg<'a>> {
        self.serialize_struct(name, 0)
    }
}

impl<'a> TopAgg<'a> {
    fn finish(self) -> R<()> {
        let n = if self.kind == SEQ { self.rec.seq_n } else { self.rec.n };
        self.rec.top = Tok {
            k: self.kind,
            len: n,
            w: 0,
        };
        Ok(())
    }
    fn elem<T: ?Sized + Serialize>(&mut self, value: &T) -> R<()> {
        let t = value.serialize(TokSer { seq: None })?;
        if self.rec.seq_n < FMAX {
            self.rec.seq[self.rec.seq_n] = t;
        }
        self.rec.seq_n += 1;
        Ok(())
    }
    fn field<T: ?Sized + Serialize>(&mut self, key: &'static str, dkey: Tok, value: &T) -> R<()> {
        let want_seq = self.rec.seq_n == 0;
        let t = if want_seq {
            value.serialize(TokSer {
                seq: Some(&mut *self.rec),
            })?
        } else {
            value.serialize(TokSer { seq: None })?
        };
        let i = self.rec.n;
        if i < FMAX {
            self.rec.keys[i] = key;
            self.rec.dkeys[i] = dkey;
            self.rec.vals[i] = t;
        }
        self.rec.n += 1;
        Ok(())
    }
}

impl<'a> ser::SerializeSeq for TopAgg<'a> {
    type Ok = ();
    type Error = SErr;
    fn serialize_element<T: ?Sized + Serialize>(&mut self, value: &T) -> R<()> {
        self.elem(value)
    }
    fn end(self) -> R<()> {
        self.finish()
    }
}
impl<'a> ser::SerializeTuple for TopAgg<'a> {
    type Ok = ();
    type Error = SErr;
    fn serialize_element<T: ?Sized + Serialize>(&mut self, value: &T) -> R<()> {
        self.elem(value)
    }
    fn end(self) -> R<()> {
        self.finish()
    }
}
impl<'a> ser::SerializeTupleStruct for TopAgg<'a> {
    type Ok = ();
    type Error = SErr;
    fn serialize_field<T: ?Sized + Serialize>(&mut self, value: &T) -> R<()> {
        self.elem(value)
    }
    fn end(self) -> R<()> {
        self.finish()
    }
}
impl<'a> ser::SerializeTupleVariant for TopAgg<'a> {
    type Ok = ();
    type Error = SErr;
    fn serialize_field<T: ?Sized + Serialize>(&mut self, value: &T) -> R<()> {
        self.elem(value)
    }
    fn end(self) -> R<()> {
        self.finish()
    }
}
impl<'a> ser::SerializeMap for TopAgg<'a> {
    type Ok = ();
    type Error = SErr;
    fn serialize_key<T: ?Sized + Serialize>(&mut self, key: &T) -> R<()> {
        self.pending_key = key.serialize(TokSer { seq: None })?;
        Ok(())
    }
    fn serialize_value<T: ?Sized + Serialize>(&mut self, value: &T) -> R<()> {
        let k = self.pending_key;
        self.field("", k, value)
    }
    fn end(self) -> R<()> {
        self.finish()
    }
}
impl<'a> ser::SerializeStruct for TopAgg<'a> {
    type Ok = ();
    type Error = SErr;
    fn serialize_field<T: ?Sized + Serialize>(&mut self, key: &'static str, value: &T) -> R<()> {
        self.field(key, Tok::absent(), value)
    }
    fn skip_field(&mut self, _key: &'static str) -> R<()> {
        self.rec.skipped += 1;
        Ok(())
    }
    fn end(self) -> R<()> {
        self.finish()
    }
}
impl<'a> ser::SerializeStructVariant for TopAgg<'a> {
    type Ok = ();
    type Error = SErr;
    fn serialize_field<T: ?Sized + Serialize>(&mut self, key: &'static str, value: &T) -> R<()> {
        self.field(key, Tok::absent(), value)
    }
    fn end(self) -> R<()> {
        self.finish()
    }
}

/// run `v`'s Serialize impl and record what it emits into `*out` (reset first)
pub fn record_into<T: ?Sized + Serialize>(v: &T, out: &mut Rec) {
    *out = Rec::empty();
    let _ = v.serialize(TopSer { rec: out });
}
