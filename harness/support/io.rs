// In-memory I/O objects for harnesses. Every method returns a literal Ok so that
// CBMC's constant propagation removes the io::Error paths (DESIGN 2(c)).

use std::io::{self, BufRead, Read, Write};

pub const WCAP: usize = 8;

/// Writer that records message boundaries instead of bytes: for each `write_all`
/// the length and the first two bytes (the harness serializer stubs put a tag there).
pub struct RecW {
    pub writes: usize,
    pub flushes: usize,
    pub bytes: usize,
    /// first byte of each recorded write (tag emitted by the to_string stub)
    pub tag: [u8; WCAP],
    /// second byte of each recorded write
    pub tag2: [u8; WCAP],
    /// third byte
    pub tag3: [u8; WCAP],
    /// did the write end in NUL
    pub nul_terminated: [bool; WCAP],
    /// value of the global ghost "current request ordinal" when written
    pub ord: [u8; WCAP],
}

pub static mut CUR_ORD: u8 = 0;

impl RecW {
    pub fn new() -> Self {
        RecW {
            writes: 0,
            flushes: 0,
            bytes: 0,
            tag: [0; WCAP],
            tag2: [0; WCAP],
            tag3: [0; WCAP],
            nul_terminated: [false; WCAP],
            ord: [0; WCAP],
        }
    }
}

impl Write for RecW {
    fn write(&mut self, buf: &[u8]) -> io::Result<usize> {
        self.record(buf);
        Ok(buf.len())
    }
    fn write_all(&mut self, buf: &[u8]) -> io::Result<()> {
        self.record(buf);
        Ok(())
    }
    fn flush(&mut self) -> io::Result<()> {
        self.flushes += 1;
        Ok(())
    }
}

impl RecW {
    fn record(&mut self, buf: &[u8]) {
        if self.writes < WCAP {
            let i = self.writes;
            if buf.len() > 0 {
                self.tag[i] = buf[0];
                self.nul_terminated[i] = buf[buf.len() - 1] == 0;
            }
            if buf.len() > 1 {
                self.tag2[i] = buf[1];
            }
            if buf.len() > 2 {
                self.tag3[i] = buf[2];
            }
            self.ord[i] = unsafe { CUR_ORD };
        }
        self.writes += 1;
        self.bytes += buf.len();
    }
}

/// Reader over a fixed array; all results are literal Ok.
pub struct ArrR<const N: usize> {
    pub data: [u8; N],
    pub len: usize,
    pub pos: usize,
    pub reads: usize,
}

impl<const N: usize> ArrR<N> {
    pub fn new(data: [u8; N], len: usize) -> Self {
        ArrR {
            data,
            len,
            pos: 0,
            reads: 0,
        }
    }
}

impl<const N: usize> Read for ArrR<N> {
    fn read(&mut self, buf: &mut [u8]) -> io::Result<usize> {
        self.reads += 1;
        let mut n = 0;
        while n < buf.len() && self.pos < self.len {
            buf[n] = self.data[self.pos];
            n += 1;
            self.pos += 1;
        }
        Ok(n)
    }
}

impl<const N: usize> BufRead for ArrR<N> {
    fn fill_buf(&mut self) -> io::Result<&[u8]> {
        self.reads += 1;
        Ok(&self.data[self.pos..self.len])
    }
    fn consume(&mut self, amt: usize) {
        self.pos += amt;
    }
}
