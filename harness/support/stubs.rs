// Kani stubs for the environment of the code under verification (DESIGN 1.2).
// Each stub is listed in the evidence of the checks that use it.

use super::tagser::{self, record_into, Rec, Tok};
use serde::Serialize;
use serde_json::Value;

pub static mut LAST_TS: Rec = Rec::empty();
pub static mut N_TS: usize = 0;
pub static mut LAST_TV: Rec = Rec::empty();
pub static mut N_TV: usize = 0;
/// record of the first to_value call since reset; later calls go to LAST_TV
pub static mut FIRST_TV: Rec = Rec::empty();

pub fn reset() {
    unsafe {
        LAST_TS = Rec::empty();
        LAST_TV = Rec::empty();
        FIRST_TV = Rec::empty();
        N_TS = 0;
        N_TV = 0;
    }
}

pub const ERR_NONE: u8 = b'-';
pub const ERR_IFACE_NOT_FOUND: u8 = b'I';
pub const ERR_INVALID_PARAM: u8 = b'P';
pub const ERR_METHOD_NOT_FOUND: u8 = b'M';
pub const ERR_NOT_IMPL: u8 = b'N';
pub const ERR_OTHER: u8 = b'X';

/// classify a recorded `error` member by the length of the standard names
/// (34/36/37/40 bytes, all starting with "org.varl")
pub fn err_code(t: Tok) -> u8 {
    match t.k {
        tagser::ABSENT | tagser::UNIT => ERR_NONE,
        tagser::STR => {
            // "org.varl" little endian
            if t.w != tagser::pack(b"org.varl") {
                return ERR_OTHER;
            }
            match t.len {
                37 => ERR_IFACE_NOT_FOUND,
                36 => ERR_INVALID_PARAM,
                34 => ERR_METHOD_NOT_FOUND,
                40 => ERR_NOT_IMPL,
                _ => ERR_OTHER,
            }
        }
        _ => ERR_OTHER,
    }
}

pub fn flag_code(t: Tok) -> u8 {
    match t.k {
        tagser::ABSENT => b'-',
        tagser::UNIT => b'n',
        tagser::BOOL => {
            if t.w == 1 {
                b'1'
            } else {
                b'0'
            }
        }
        _ => b'?',
    }
}

/// stands for serde_json::to_string: runs the real Serialize impl against the recording
/// serializer and returns a 3-byte tag string:
///   Reply   -> 'R', continues code, error code
///   Request -> 'Q', oneway code, more code
///   other   -> 'O', '-', '-'
pub fn to_string<T: ?Sized + Serialize>(value: &T) -> serde_json::Result<String> {
    let rec = unsafe {
        record_into(value, &mut LAST_TS);
        N_TS += 1;
        &LAST_TS
    };
    let (a, b, c) = if rec.name.len() == 5 {
        // "Reply"
        (b'R', flag_code(rec.field("continues")), err_code(rec.field("error")))
    } else if rec.name.len() == 7 {
        // "Request"
        (b'Q', flag_code(rec.field("oneway")), flag_code(rec.field("more")))
    } else {
        (b'O', b'-', b'-')
    };
    let v: Vec<u8> = Vec::from([a, b, c]);
    Ok(unsafe { String::from_utf8_unchecked(v) })
}

/// stands for serde_json::to_value: records what the real Serialize impl emits and
/// returns an opaque non-null value.
pub fn to_value<T: Serialize>(value: T) -> serde_json::Result<Value> {
    unsafe {
        if N_TV == 0 {
            record_into(&value, &mut FIRST_TV);
        } else {
            record_into(&value, &mut LAST_TV);
        }
        N_TV += 1;
    }
    std::mem::forget(value);
    Ok(Value::Bool(true))
}

/// stands for alloc::fmt::format (format! on error / display paths)
pub fn format(_args: std::fmt::Arguments<'_>) -> String {
    String::new()
}
