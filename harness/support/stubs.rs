// Kani stubs for the environment of the code under verification (DESIGN 1.2).
// Each stub is listed in the evidence of the checks that use it.

use super::tagser::{self, record_into, Rec, Tok};
use serde::Serialize;
use serde_json::Value;

pub static mut LAST_TS: Rec = Rec::empty();
pub static mut N_TS: usize = 0;
pub static mut LAST_TV: Rec = Rec::empty();
pub static mut N_TV: usize = 0;
/// record of the first to_value call since reset; later calls go to LAST_TV
pub static mut FIRST_TV: Rec = Rec::empty();

pub fn reset() {
    unsafe {
        PARSE_FAILED = false;
        LAST_TS = Rec::empty();
        LAST_TV = Rec::empty();
        FIRST_TV = Rec::empty();
        N_TS = 0;
        N_TV = 0;
    }
}

pub const ERR_NONE: u8 = b'-';
pub const ERR_IFACE_NOT_FOUND: u8 = b'I';
pub const ERR_INVALID_PARAM: u8 = b'P';
pub const ERR_METHOD_NOT_FOUND: u8 = b'M';
pub const ERR_NOT_IMPL: u8 = b'N';
pub const ERR_OTHER: u8 = b'X';

/// classify a recorded `error` member by the length of the standard names
/// (34/36/37/40 bytes, all starting with "org.varl")
pub fn err_code(t: Tok) -> u8 {
    match t.k {
        tagser::ABSENT | tagser::UNIT => ERR_NONE,
        tagser::STR => {
            // "org.varl" little endian
            if t.w != tagser::pack(b"org.varl") {
                return ERR_OTHER;
            }
            match t.len {
                37 => ERR_IFACE_NOT_FOUND,
                36 => ERR_INVALID_PARAM,
                34 => ERR_METHOD_NOT_FOUND,
                40 => ERR_NOT_IMPL,
                _ => ERR_OTHER,
            }
        }
        _ => ERR_OTHER,
    }
}

pub fn flag_code(t: Tok) -> u8 {
    match t.k {
        tagser::ABSENT => b'-',
        tagser::UNIT => b'n',
        tagser::BOOL => {
            if t.w == 1 {
                b'1'
            } else {
                b'0'
            }
        }
        _ => b'?',
    }
}

/// stands for serde_json::to_string: runs the real Serialize impl against the recording
/// serializer and returns a 3-byte tag string:
///   Reply   -> 'R', continues code, error code
///   Request -> 'Q', oneway code, more code
///   other   -> 'O', '-', '-'
pub fn to_string<T: ?Sized + Serialize>(value: &T) -> serde_json::Result<String> {
    let rec = unsafe {
        record_into(value, &mut LAST_TS);
        N_TS += 1;
        &LAST_TS
    };
    let (a, b, c) = if rec.name.len() == 5 {
        // "Reply"
        (b'R', flag_code(rec.field("continues")), err_code(rec.field("error")))
    } else if rec.name.len() == 7 {
        // "Request"
        (b'Q', flag_code(rec.field("oneway")), flag_code(rec.field("more")))
    } else {
        (b'O', b'-', b'-')
    };
    let v: Vec<u8> = Vec::from([a, b, c]);
    Ok(unsafe { String::from_utf8_unchecked(v) })
}

/// stands for serde_json::to_value: records what the real Serialize impl emits and
/// returns an opaque non-null value.
pub fn to_value<T: Serialize>(value: T) -> serde_json::Result<Value> {
    unsafe {
        if N_TV == 0 {
            record_into(&value, &mut FIRST_TV);
        } else {
            record_into(&value, &mut LAST_TV);
        }
        N_TV += 1;
    }
    std::mem::forget(value);
    Ok(Value::Bool(true))
}

/// stands for alloc::fmt::format (format! on error / display paths)
pub fn format(_args: std::fmt::Arguments<'_>) -> String {
    String::new()
}

// ---------------------------------------------------------------------------------------
// parser side: serde_json::from_slice / from_str answered from a pre-drawn script

use super::nde::{self, MapScript, ObjDe};
use serde::Deserialize;

pub const NPARSE: usize = 4;

#[derive(Clone, Copy)]
pub struct ParseScript {
    /// false: the text is not valid JSON / not an object -> Err
    pub ok: bool,
    /// which serde_json error category the failure has: 0 Io, 1 Eof (truncated document), 2 Data (wrong shape)
    pub err_kind: u8,
    pub obj: MapScript,
}

impl ParseScript {
    pub const fn empty() -> ParseScript {
        ParseScript {
            ok: false,
            err_kind: 0,
            obj: MapScript::empty(),
        }
    }
}

pub static mut PARSE: [ParseScript; NPARSE] = [ParseScript::empty(); NPARSE];
pub static mut N_PARSE: usize = 0;
/// the parser has reported a malformed message
pub static mut PARSE_FAILED: bool = false;

/// stands for serde_json::from_slice: the k-th call is answered by PARSE[k]
pub fn from_slice<'a, T: Deserialize<'a>>(_v: &'a [u8]) -> serde_json::Result<T> {
    let i = unsafe {
        let i = N_PARSE;
        N_PARSE += 1;
        super::io::CUR_ORD = i as u8;
        i
    };
    if i >= NPARSE {
        unsafe { PARSE_FAILED = true };
        return Err(nde::json_err());
    }
    let sc = unsafe { PARSE[i] };
    if !sc.ok {
        unsafe { PARSE_FAILED = true };
        return Err(match sc.err_kind {
            1 => nde::json_eof_err(),
            2 => nde::json_data_err(),
            _ => nde::json_err(),
        });
    }
    match T::deserialize(ObjDe(sc.obj)) {
        Ok(t) => Ok(t),
        Err(_) => Err(nde::json_err()),
    }
}

/// what the k-th request's `parameters` value deserializes from (consulted by from_value;
/// the Value object itself stays opaque)
pub static mut FV: [nde::FvKind; NPARSE] = [nde::FvKind::EmptyObj; NPARSE];
pub static mut N_FV: usize = 0;

/// stands for serde_json::from_value: drives the real Deserialize impl of T with the value
/// description the scenario holds for the request being served (ordinal = io::CUR_ORD)
pub fn from_value<T: serde::de::DeserializeOwned>(v: Value) -> serde_json::Result<T> {
    std::mem::forget(v);
    let i = unsafe { super::io::CUR_ORD } as usize;
    unsafe { N_FV += 1 };
    if i >= NPARSE {
        return Err(nde::json_err());
    }
    let r = match unsafe { FV[i] } {
        nde::FvKind::NonObject => T::deserialize(nde::BoolDe(true)),
        nde::FvKind::EmptyObj => T::deserialize(nde::EmptyMapDe),
        nde::FvKind::Obj(k) => T::deserialize(nde::NestedDe(k)),
    };
    match r {
        Ok(t) => Ok(t),
        Err(_) => Err(nde::json_err()),
    }
}

pub fn from_utf8_lossy(_v: &[u8]) -> std::borrow::Cow<'_, str> {
    std::borrow::Cow::Borrowed("")
}

/// naive_memrchr for the handle-level harnesses. `rfind` on the method name is the first
/// thing the loop does with a parsed request, so reaching it after the parser reported a
/// malformed message means the message is being processed: asserted here. (Kani's assert
/// also assumes its condition, which lets symex drop the path; behind
/// Result<Request, varlink::Error> CBMC cannot fold the Ok/Err test and would otherwise
/// execute the whole loop body on a garbage Request.)
pub fn memrchr_guarded(x: u8, text: &[u8]) -> Option<usize> {
    assert!(!unsafe { PARSE_FAILED }, "P:c06.malformed_message_is_not_processed");
    naive_memrchr(x, text)
}

pub fn naive_memrchr(x: u8, text: &[u8]) -> Option<usize> {
    let mut i = text.len();
    while i > 0 {
        i -= 1;
        if text[i] == x {
            return Some(i);
        }
    }
    None
}

pub fn naive_memchr(x: u8, text: &[u8]) -> Option<usize> {
    let mut i = 0;
    while i < text.len() {
        if text[i] == x {
            return Some(i);
        }
        i += 1;
    }
    None
}

/// stands for std::io::BufReader::new: same type, same code, but a small buffer instead of
/// 8 KiB, so that refills and "message larger than the internal buffer" happen at sizes CBMC
/// can reach. BUFCAP is set by the harness.
pub const BUFCAP: usize = 4;
pub fn small_bufreader<R: std::io::Read>(inner: R) -> std::io::BufReader<R> {
    std::io::BufReader::with_capacity(BUFCAP, inner)
}

/// stands for std's private `std::io::read_until` (the body of BufRead::read_until):
/// same contract — append bytes up to and including `delim` or until EOF, return the count —
/// written byte-at-a-time (std uses memchr + extend_from_slice, whose symbolic-length copies
/// CBMC cannot handle). I/O errors are passed through (std additionally retries on
/// ErrorKind::Interrupted, which no harness reader produces).
pub fn read_until<R: std::io::BufRead + ?Sized>(r: &mut R, delim: u8, buf: &mut Vec<u8>) -> std::io::Result<usize> {
    let mut read = 0;
    loop {
        let (done, used) = {
            let available = match r.fill_buf() {
                Ok(n) => n,
                Err(e) => return Err(e),
            };
            let mut i = 0;
            let mut done = false;
            while i < available.len() {
                let b = available[i];
                buf.push(b);
                i += 1;
                if b == delim {
                    done = true;
                    break;
                }
            }
            (done, i)
        };
        r.consume(used);
        read += used;
        if done || used == 0 {
            return Ok(read);
        }
    }
}

/// carrier for stubbing the provided trait method std::io::BufRead::read_until
pub trait RuStub: std::io::BufRead {
    fn read_until(&mut self, delim: u8, buf: &mut Vec<u8>) -> std::io::Result<usize> {
        read_until(self, delim, buf)
    }
}
impl<T: std::io::BufRead + ?Sized> RuStub for T {}

// ---------------------------------------------------------------------------------------
// interface table: behavioural model of HashMap<Cow<str>, Box<dyn Interface>> lookups.
// hashbrown + SipHash on a symbolic key costs minutes per lookup (DESIGN P8); the harness
// keeps the registered names / objects in a ghost table and the two lookups used by
// VarlinkService are answered from it by exact string equality (HashMap's contract).

use std::borrow::Borrow;
use std::collections::HashMap;
use std::hash::{BuildHasher, Hash};

pub const NREG: usize = 2;
pub static mut REG_N: usize = 0;
pub static mut REG_NAMES: [&'static str; NREG] = [""; NREG];
/// each entry points to a leaked `V` (the map's value type)
pub static mut REG_VALS: [*const u8; NREG] = [std::ptr::null(); NREG];
pub static mut N_LOOKUPS: usize = 0;

pub fn reg_find(s: &str) -> Option<usize> {
    let mut i = 0;
    while i < NREG {
        if i < unsafe { REG_N } && tagser::key_eq(unsafe { REG_NAMES[i] }, s) {
            return Some(i);
        }
        i += 1;
    }
    None
}

pub fn contains_key<K, V, S, A: std::alloc::Allocator, Q: ?Sized>(_m: &HashMap<K, V, S, A>, k: &Q) -> bool
where
    K: Borrow<Q> + Eq + Hash,
    Q: Hash + Eq,
    S: BuildHasher,
{
    // only instantiated with Q = str by the code under check
    let s: &str = unsafe { std::mem::transmute_copy::<&Q, &str>(&k) };
    unsafe { N_LOOKUPS += 1 };
    reg_find(s).is_some()
}

/// HashMap::get (also the body of `map[key]`, which is get().expect())
pub fn get<'a, K, V, S, A: std::alloc::Allocator, Q: ?Sized>(_m: &'a HashMap<K, V, S, A>, k: &Q) -> Option<&'a V>
where
    K: Borrow<Q> + Eq + Hash,
    Q: Hash + Eq,
    S: BuildHasher,
{
    let s: &str = unsafe { std::mem::transmute_copy::<&Q, &str>(&k) };
    unsafe { N_LOOKUPS += 1 };
    match reg_find(s) {
        Some(i) => Some(unsafe { &*(REG_VALS[i] as *const V) }),
        None => None,
    }
}

pub fn fixed_random_state() -> std::hash::RandomState {
    unsafe { std::mem::transmute::<(u64, u64), std::hash::RandomState>((0, 0)) }
}

/// stands for <serde_json::Value as Clone>::clone on the values the harnesses create
/// (null / bool / number / string). serde_json's recursive clone of arrays and objects is
/// third-party code; CBMC cannot fold its recursion once a Value's discriminant is an
/// if-then-else (probe_m). Reaching an array/object here is reported as a failure.
pub fn value_clone_shallow(v: &Value) -> Value {
    match v {
        Value::Null => Value::Null,
        Value::Bool(b) => Value::Bool(*b),
        Value::Number(n) => Value::Number(n.clone()),
        Value::String(s) => Value::String(s.clone()),
        _ => panic!("harness model: clone of a compound serde_json::Value"),
    }
}

