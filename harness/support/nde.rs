// Scripted deserializer ("NDe" in DESIGN 1.2): stands for serde_json's text/bytes parser.
// The harness draws, per message, WHAT the parser found (which members with which values,
// or a syntax error); this serde::Deserializer then drives the real derived / hand-written
// Deserialize visitors of /repo with exactly those events, observing serde's MapAccess
// protocol the way serde_json's own front-ends do (a key must be followed by consuming its
// value before the next key is requested).
//
// Written for CBMC: every object has a STATIC slot layout (key and value kind of slot i are
// constants; only `present` and the payload are symbolic) and each value kind has its own
// deserializer type, so the visitor call graph is finite and symex follows one arm per slot.

use serde::de::{self, DeserializeSeed, Deserializer, MapAccess, Visitor};
use serde::forward_to_deserialize_any;

pub const NENT: usize = 6;
pub const SLEN: usize = 8;

// slot kinds (constants of the layout)
pub const K_BOOL: u8 = 0; // payload b
pub const K_STATIC: u8 = 1; // payload s: one of a few constant strings
pub const K_OPAQUE: u8 = 2; // an opaque JSON value: null (b = true) or "some non-null value"
pub const K_NESTED: u8 = 3; // nested object, script NESTED[idx]; values are leaves
pub const K_EMPTYMAP: u8 = 4; // {}
pub const K_BYTES: u8 = 5; // short ASCII string with symbolic bytes: len idx, bytes in w
pub const K_NULL: u8 = 6;
pub const K_OPTBOOL: u8 = 7; // null (idx = 0) or a bool b (idx = 1)
pub const K_SEQ: u8 = 8; // sequence of idx (<= 2) short strings: w[0..3] / w[4..7], lengths in s2
pub const K_OPTBYTES: u8 = 9; // null (b = false) or a short string (len idx, bytes w)

#[derive(Clone, Copy, Debug)]
pub struct Entry {
    pub key: &'static str,
    pub kind: u8,
    /// the member occurs in the object
    pub present: bool,
    pub b: bool,
    pub s: &'static str,
    pub idx: usize,
    pub w: [u8; SLEN],
    /// K_SEQ: lengths of the two elements
    pub l2: [usize; 2],
}

impl Entry {
    pub const fn blank() -> Entry {
        Entry {
            key: "",
            kind: K_NULL,
            present: false,
            b: false,
            s: "",
            idx: 0,
            w: [0; SLEN],
            l2: [0; 2],
        }
    }
}

#[derive(Clone, Copy, Debug)]
pub struct MapScript {
    pub n: usize,
    pub e: [Entry; NENT],
}

impl MapScript {
    pub const fn empty() -> MapScript {
        MapScript {
            n: 0,
            e: [Entry::blank(); NENT],
        }
    }
    fn add(&mut self, e: Entry) {
        if self.n < NENT {
            self.e[self.n] = e;
            self.n += 1;
        }
    }
    /// an optional flag. The member is always emitted, as `null` when unset: for the derived
    /// visitors of Option fields an absent member and a null member are the same event
    /// sequence result (None); emitting it keeps the slot index concrete for CBMC.
    pub fn flag(&mut self, key: &'static str, v: Option<bool>) {
        let mut e = Entry::blank();
        e.key = key;
        e.kind = K_OPTBOOL;
        e.present = true;
        e.idx = v.is_some() as usize;
        e.b = v == Some(true);
        self.add(e);
    }
    pub fn string(&mut self, key: &'static str, s: &'static str, present: bool) {
        let mut e = Entry::blank();
        e.key = key;
        e.kind = K_STATIC;
        e.present = present;
        e.s = s;
        self.add(e);
    }
    pub fn bytes(&mut self, key: &'static str, len: usize, w: [u8; SLEN], present: bool) {
        let mut e = Entry::blank();
        e.key = key;
        e.kind = K_BYTES;
        e.present = present;
        e.idx = len;
        e.w = w;
        self.add(e);
    }
    pub fn optbytes(&mut self, key: &'static str, some: bool, len: usize, w: [u8; SLEN]) {
        let mut e = Entry::blank();
        e.key = key;
        e.kind = K_OPTBYTES;
        e.present = true;
        e.b = some;
        e.idx = len;
        e.w = w;
        self.add(e);
    }
    pub fn seq2(&mut self, key: &'static str, n: usize, l2: [usize; 2], w: [u8; SLEN]) {
        let mut e = Entry::blank();
        e.key = key;
        e.kind = K_SEQ;
        e.present = true;
        e.idx = n;
        e.l2 = l2;
        e.w = w;
        self.add(e);
    }
    pub fn opaque(&mut self, key: &'static str, present: bool, is_null: bool) {
        let mut e = Entry::blank();
        e.key = key;
        e.kind = K_OPAQUE;
        e.present = present;
        e.b = is_null;
        self.add(e);
    }
    pub fn nested(&mut self, key: &'static str, idx: usize, present: bool) {
        let mut e = Entry::blank();
        e.key = key;
        e.kind = K_NESTED;
        e.present = present;
        e.idx = idx;
        self.add(e);
    }
    pub fn emptymap(&mut self, key: &'static str, present: bool) {
        let mut e = Entry::blank();
        e.key = key;
        e.kind = K_EMPTYMAP;
        e.present = present;
        self.add(e);
    }
}

pub static mut NESTED: [MapScript; 4] = [MapScript::empty(); 4];

/// set when a visitor asked for the next key without having consumed the previous value
pub static mut PROTOCOL_BREACH: bool = false;

#[derive(Debug)]
pub struct DErr;
impl std::fmt::Display for DErr {
    fn fmt(&self, _f: &mut std::fmt::Formatter) -> std::fmt::Result {
        Ok(())
    }
}
impl std::error::Error for DErr {}
impl de::Error for DErr {
    fn custom<T: std::fmt::Display>(_msg: T) -> Self {
        DErr
    }
}

type R<T> = std::result::Result<T, DErr>;

pub fn string_of(len: usize, b: &[u8; SLEN]) -> String {
    let mut v: Vec<u8> = Vec::with_capacity(SLEN);
    let mut i = 0;
    while i < len && i < SLEN {
        v.push(b[i]);
        i += 1;
    }
    // scenario builders only produce ASCII
    unsafe { String::from_utf8_unchecked(v) }
}

macro_rules! fwd_all_but_option {
    () => {
        forward_to_deserialize_any! {
            bool i8 i16 i32 i64 i128 u8 u16 u32 u64 u128 f32 f64 char str string
            bytes byte_buf unit unit_struct newtype_struct seq tuple
            tuple_struct map struct enum identifier
        }
        /// a skipped value: consumed without being looked at
        fn deserialize_ignored_any<Vis: Visitor<'de>>(self, visitor: Vis) -> R<Vis::Value> {
            visitor.visit_unit()
        }
    };
}

/// a serde_json error of category Data (valid JSON of the wrong shape: wrong member type,
/// missing member), built by serde_json's own de::Error::custom
pub fn json_data_err() -> serde_json::Error {
    <serde_json::Error as de::Error>::custom("x")
}

pub struct BoolDe(pub bool);
impl<'de> Deserializer<'de> for BoolDe {
    type Error = DErr;
    fn deserialize_any<Vis: Visitor<'de>>(self, visitor: Vis) -> R<Vis::Value> {
        visitor.visit_bool(self.0)
    }
    fn deserialize_option<Vis: Visitor<'de>>(self, visitor: Vis) -> R<Vis::Value> {
        visitor.visit_some(self)
    }
    fwd_all_but_option!();
}

pub struct OptBoolDe {
    pub some: bool,
    pub b: bool,
}
impl<'de> Deserializer<'de> for OptBoolDe {
    type Error = DErr;
    fn deserialize_any<Vis: Visitor<'de>>(self, visitor: Vis) -> R<Vis::Value> {
        if self.some {
            visitor.visit_bool(self.b)
        } else {
            visitor.visit_unit()
        }
    }
    fn deserialize_option<Vis: Visitor<'de>>(self, visitor: Vis) -> R<Vis::Value> {
        if self.some {
            visitor.visit_some(BoolDe(self.b))
        } else {
            visitor.visit_none()
        }
    }
    fwd_all_but_option!();
}

pub struct OptStrDe {
    pub some: bool,
    pub len: usize,
    pub w: [u8; SLEN],
}
impl<'de> Deserializer<'de> for OptStrDe {
    type Error = DErr;
    fn deserialize_any<Vis: Visitor<'de>>(self, visitor: Vis) -> R<Vis::Value> {
        if self.some {
            visitor.visit_string(string_of(self.len, &self.w))
        } else {
            visitor.visit_unit()
        }
    }
    fn deserialize_option<Vis: Visitor<'de>>(self, visitor: Vis) -> R<Vis::Value> {
        if self.some {
            visitor.visit_some(StrDe(string_of(self.len, &self.w)))
        } else {
            visitor.visit_none()
        }
    }
    fwd_all_but_option!();
}

/// sequence of up to two short strings
pub struct Seq2De {
    pub n: usize,
    pub l2: [usize; 2],
    pub w: [u8; SLEN],
}
pub struct Seq2Access {
    d: Seq2De,
    i: usize,
}
impl<'de> de::SeqAccess<'de> for Seq2Access {
    type Error = DErr;
    fn next_element_seed<T: DeserializeSeed<'de>>(&mut self, seed: T) -> R<Option<T::Value>> {
        if self.i >= self.d.n || self.i >= 2 {
            return Ok(None);
        }
        let mut b = [0u8; SLEN];
        let off = self.i * 4;
        let mut k = 0;
        while k < 4 {
            b[k] = self.d.w[off + k];
            k += 1;
        }
        let len = self.d.l2[self.i];
        self.i += 1;
        seed.deserialize(StrDe(string_of(len, &b))).map(Some)
    }
}
impl<'de> Deserializer<'de> for Seq2De {
    type Error = DErr;
    fn deserialize_any<Vis: Visitor<'de>>(self, visitor: Vis) -> R<Vis::Value> {
        visitor.visit_seq(Seq2Access { d: self, i: 0 })
    }
    fn deserialize_option<Vis: Visitor<'de>>(self, visitor: Vis) -> R<Vis::Value> {
        visitor.visit_some(self)
    }
    fwd_all_but_option!();
}

pub struct NullDe;
impl<'de> Deserializer<'de> for NullDe {
    type Error = DErr;
    fn deserialize_any<Vis: Visitor<'de>>(self, visitor: Vis) -> R<Vis::Value> {
        visitor.visit_unit()
    }
    fn deserialize_option<Vis: Visitor<'de>>(self, visitor: Vis) -> R<Vis::Value> {
        visitor.visit_none()
    }
    fwd_all_but_option!();
}

pub struct StrDe(pub String);
impl<'de> Deserializer<'de> for StrDe {
    type Error = DErr;
    fn deserialize_any<Vis: Visitor<'de>>(self, visitor: Vis) -> R<Vis::Value> {
        visitor.visit_string(self.0)
    }
    fn deserialize_option<Vis: Visitor<'de>>(self, visitor: Vis) -> R<Vis::Value> {
        visitor.visit_some(self)
    }
    fwd_all_but_option!();
}

/// an opaque JSON value: `null`, or a non-null value whose content the harness does not
/// model (serde_json::from_value is answered from the scenario instead)
pub struct OpaqueDe {
    pub is_null: bool,
}
impl<'de> Deserializer<'de> for OpaqueDe {
    type Error = DErr;
    fn deserialize_any<Vis: Visitor<'de>>(self, visitor: Vis) -> R<Vis::Value> {
        visitor.visit_bool(true)
    }
    fn deserialize_option<Vis: Visitor<'de>>(self, visitor: Vis) -> R<Vis::Value> {
        if self.is_null {
            visitor.visit_none()
        } else {
            visitor.visit_some(self)
        }
    }
    fwd_all_but_option!();
}

/// `{}`: never hands out a value deserializer, so visitors of recursive types
/// (serde_json::Value) have a finite call graph
pub struct EmptyMapAccess;
impl<'de> MapAccess<'de> for EmptyMapAccess {
    type Error = DErr;
    fn next_key_seed<K: DeserializeSeed<'de>>(&mut self, _seed: K) -> R<Option<K::Value>> {
        Ok(None)
    }
    fn next_value_seed<T: DeserializeSeed<'de>>(&mut self, _seed: T) -> R<T::Value> {
        Err(DErr)
    }
}

pub struct EmptyMapDe;
impl<'de> Deserializer<'de> for EmptyMapDe {
    type Error = DErr;
    fn deserialize_any<Vis: Visitor<'de>>(self, visitor: Vis) -> R<Vis::Value> {
        visitor.visit_map(EmptyMapAccess)
    }
    fn deserialize_option<Vis: Visitor<'de>>(self, visitor: Vis) -> R<Vis::Value> {
        visitor.visit_some(self)
    }
    fwd_all_but_option!();
}

/// Deserializer for a key (always a string).
pub struct KeyDe(pub &'static str);
impl<'de> Deserializer<'de> for KeyDe {
    type Error = DErr;
    fn deserialize_any<Vis: Visitor<'de>>(self, visitor: Vis) -> R<Vis::Value> {
        visitor.visit_str(self.0)
    }
    forward_to_deserialize_any! {
        bool i8 i16 i32 i64 i128 u8 u16 u32 u64 u128 f32 f64 char str string
        bytes byte_buf option unit unit_struct newtype_struct seq tuple
        tuple_struct map struct enum identifier ignored_any
    }
}

fn skip_absent(s: &MapScript, mut i: usize) -> usize {
    while i < s.n && i < NENT && !s.e[i].present {
        i += 1;
    }
    i
}

/// map access of a nested object: values are leaves (no further nesting)
pub struct LeafMap {
    pub s: MapScript,
    pub i: usize,
    pub value_pending: bool,
}

impl<'de> MapAccess<'de> for LeafMap {
    type Error = DErr;
    fn next_key_seed<K: DeserializeSeed<'de>>(&mut self, seed: K) -> R<Option<K::Value>> {
        if self.value_pending {
            // serde_json's text and byte front-ends fail here ("expected `:`"): the value
            // of the previous key was never consumed
            unsafe { PROTOCOL_BREACH = true };
            return Err(DErr);
        }
        self.i = skip_absent(&self.s, self.i);
        if self.i >= self.s.n || self.i >= NENT {
            return Ok(None);
        }
        self.value_pending = true;
        seed.deserialize(KeyDe(self.s.e[self.i].key)).map(Some)
    }
    fn next_value_seed<T: DeserializeSeed<'de>>(&mut self, seed: T) -> R<T::Value> {
        if !self.value_pending {
            return Err(DErr);
        }
        self.value_pending = false;
        let e = self.s.e[self.i];
        self.i += 1;
        match e.kind {
            K_BOOL => seed.deserialize(BoolDe(e.b)),
            K_OPTBOOL => seed.deserialize(OptBoolDe {
                some: e.idx == 1,
                b: e.b,
            }),
            K_STATIC => seed.deserialize(StrDe(String::from(e.s))),
            K_BYTES => seed.deserialize(StrDe(string_of(e.idx, &e.w))),
            K_OPAQUE => seed.deserialize(OpaqueDe { is_null: e.b }),
            K_EMPTYMAP => seed.deserialize(EmptyMapDe),
            _ => seed.deserialize(NullDe),
        }
    }
}

pub struct NestedDe(pub usize);
impl<'de> Deserializer<'de> for NestedDe {
    type Error = DErr;
    fn deserialize_any<Vis: Visitor<'de>>(self, visitor: Vis) -> R<Vis::Value> {
        visitor.visit_map(LeafMap {
            s: unsafe { NESTED[self.0] },
            i: 0,
            value_pending: false,
        })
    }
    fn deserialize_option<Vis: Visitor<'de>>(self, visitor: Vis) -> R<Vis::Value> {
        visitor.visit_some(self)
    }
    fwd_all_but_option!();
}

/// map access of a top-level object
pub struct ScriptMap {
    pub s: MapScript,
    pub i: usize,
    pub value_pending: bool,
}

impl<'de> MapAccess<'de> for ScriptMap {
    type Error = DErr;
    fn next_key_seed<K: DeserializeSeed<'de>>(&mut self, seed: K) -> R<Option<K::Value>> {
        if self.value_pending {
            unsafe { PROTOCOL_BREACH = true };
            return Err(DErr);
        }
        self.i = skip_absent(&self.s, self.i);
        if self.i >= self.s.n || self.i >= NENT {
            return Ok(None);
        }
        self.value_pending = true;
        seed.deserialize(KeyDe(self.s.e[self.i].key)).map(Some)
    }
    fn next_value_seed<T: DeserializeSeed<'de>>(&mut self, seed: T) -> R<T::Value> {
        if !self.value_pending {
            return Err(DErr);
        }
        self.value_pending = false;
        let e = self.s.e[self.i];
        self.i += 1;
        match e.kind {
            K_BOOL => seed.deserialize(BoolDe(e.b)),
            K_OPTBOOL => seed.deserialize(OptBoolDe {
                some: e.idx == 1,
                b: e.b,
            }),
            K_STATIC => seed.deserialize(StrDe(String::from(e.s))),
            K_BYTES => seed.deserialize(StrDe(string_of(e.idx, &e.w))),
            K_OPAQUE => seed.deserialize(OpaqueDe { is_null: e.b }),
            K_NESTED => seed.deserialize(NestedDe(e.idx)),
            K_OPTBYTES => seed.deserialize(OptStrDe {
                some: e.b,
                len: e.idx,
                w: e.w,
            }),
            K_SEQ => seed.deserialize(Seq2De {
                n: e.idx,
                l2: e.l2,
                w: e.w,
            }),
            K_EMPTYMAP => seed.deserialize(EmptyMapDe),
            _ => seed.deserialize(NullDe),
        }
    }
}

/// Deserializer for a top-level object described by a script.
pub struct ObjDe(pub MapScript);
impl<'de> Deserializer<'de> for ObjDe {
    type Error = DErr;
    fn deserialize_any<Vis: Visitor<'de>>(self, visitor: Vis) -> R<Vis::Value> {
        visitor.visit_map(ScriptMap {
            s: self.0,
            i: 0,
            value_pending: false,
        })
    }
    fn deserialize_option<Vis: Visitor<'de>>(self, visitor: Vis) -> R<Vis::Value> {
        visitor.visit_some(self)
    }
    fwd_all_but_option!();
}

/// what a serde_json::Value handed to from_value looks like (top level)
#[derive(Clone, Copy, Debug)]
pub enum FvKind {
    /// `true` / a scalar: not an object
    NonObject,
    /// {}
    EmptyObj,
    /// the object described by NESTED[i]
    Obj(usize),
}

pub fn json_err() -> serde_json::Error {
    serde_json::Error::io(std::io::Error::from(std::io::ErrorKind::InvalidData))
}

/// a serde_json error of category Eof ("EOF while parsing"), as a truncated document gives:
/// produced by the real parser on the empty string
pub fn json_eof_err() -> serde_json::Error {
    // from_reader tracks line/column incrementally (from_str computes them with the memchr
    // crate, whose runtime CPU detection is inline assembly Kani cannot compile)
    let empty: &[u8] = &[];
    match serde_json::from_reader::<&[u8], bool>(empty) {
        Err(e) => e,
        Ok(_) => json_err(),
    }
}

