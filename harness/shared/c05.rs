// C05 (server half) scenario: a method implementation scripted over
// {set_continues(b), reply, reply_error} against a request with arbitrary flags.
use super::src_trait::Src;

pub const NOPS: usize = 3;
pub const OP_CONT_ON: u8 = 0;
pub const OP_CONT_OFF: u8 = 1;
pub const OP_REPLY: u8 = 2;
pub const OP_REPLY_ERR: u8 = 3;

#[derive(Clone, Copy, Debug)]
pub struct C05 {
    pub more: Option<bool>,
    pub oneway: Option<bool>,
    pub upgrade: Option<bool>,
    pub n: u8,
    pub ops: [u8; NOPS],
}

pub fn draw<S: Src>(s: &mut S) -> C05 {
    let more = s.opt_bool();
    let oneway = s.opt_bool();
    let upgrade = s.opt_bool();
    let n = s.below(NOPS as u8 + 1);
    let mut ops = [0u8; NOPS];
    let mut i = 0;
    while i < NOPS {
        ops[i] = s.below(4);
        i += 1;
    }
    C05 {
        more,
        oneway,
        upgrade,
        n,
        ops,
    }
}

#[derive(Clone, Copy, Debug, PartialEq)]
pub struct Expect {
    /// replies put on the wire, with their continues flag and whether they are error replies
    pub writes: usize,
    pub cont: [bool; NOPS],
    pub is_err: [bool; NOPS],
    /// index of the op that must fail with CallContinuesMismatch (NOPS = none)
    pub mismatch_at: usize,
}

pub fn expect(sc: &C05) -> Expect {
    let mut e = Expect {
        writes: 0,
        cont: [false; NOPS],
        is_err: [false; NOPS],
        mismatch_at: NOPS,
    };
    let more = sc.more == Some(true);
    let oneway = sc.oneway == Some(true);
    let mut cont = false;
    let mut i = 0;
    while i < sc.n as usize && i < NOPS {
        match sc.ops[i] {
            OP_CONT_ON => cont = true,
            OP_CONT_OFF => cont = false,
            op => {
                if !oneway {
                    if cont && !more {
                        e.mismatch_at = i;
                        return e;
                    }
                    e.cont[e.writes] = cont;
                    e.is_err[e.writes] = op == OP_REPLY_ERR;
                    e.writes += 1;
                }
            }
        }
        i += 1;
    }
    e
}
