// C12 scenario: an input text of fixed length and the byte offset at which the parser gives up.
use super::src_trait::Src;

pub const TLEN: usize = 4;
pub const TMAX: usize = 6;

#[derive(Clone, Copy, Debug)]
pub struct C12 {
    /// the first `n` bytes are the text
    pub text: [u8; TMAX],
    pub n: usize,
    pub pos: usize,
}

/// `n` (<= TMAX) is a constant of the harness instance
pub fn draw<S: Src>(s: &mut S, n: usize) -> C12 {
    let mut text = [0u8; TMAX];
    let mut i = 0;
    while i < n && i < TMAX {
        // letters, and the line-ending bytes the grammar knows about
        let c = s.below(4);
        text[i] = match c {
            0 => b'a',
            1 => b'\n',
            2 => b'\r',
            _ => b' ',
        };
        i += 1;
    }
    let pos = s.below(n as u8 + 1) as usize;
    C12 { text, n, pos }
}

/// the line of `text` that contains byte offset `pos` (lines are separated by '\n'), as
/// (start, end) offsets, and the 1-based column of `pos` in it
pub fn line_of(text: &[u8], pos: usize) -> (usize, usize, usize) {
    let mut start = 0;
    let mut i = 0;
    while i < pos && i < text.len() {
        if text[i] == b'\n' {
            start = i + 1;
        }
        i += 1;
    }
    let mut end = text.len();
    let mut j = pos;
    while j < text.len() {
        if text[j] == b'\n' {
            end = j;
            break;
        }
        j += 1;
    }
    (start, end, pos - start + 1)
}
