// C04 scenario: one reply path of the library, taken for a request with arbitrary flags.
use super::src_trait::Src;

#[derive(Clone, Copy, Debug)]
pub struct C04 {
    pub more: Option<bool>,
    pub oneway: Option<bool>,
    pub upgrade: Option<bool>,
    /// Call.continues as set by the method implementation before replying
    pub continues: bool,
    /// 0 reply_struct(parameters) 1 reply_parameters (built-in GetInfo path)
    /// 2 reply_method_not_found 3 reply_method_not_implemented
    /// 4 reply_invalid_parameter 5 reply_interface_not_found(Some) 6 reply_interface_not_found(None)
    /// 7 reply_struct(error)
    pub path: u8,
}

pub const NPATHS: u8 = 8;

pub fn draw<S: Src>(s: &mut S) -> C04 {
    let more = s.opt_bool();
    let oneway = s.opt_bool();
    let upgrade = s.opt_bool();
    let continues = s.bool();
    let path = s.below(NPATHS);
    // reply_parameters is private; its only callers hold a fresh Call (continues == false)
    s.assume(!(path == 1 && continues));
    C04 {
        more,
        oneway,
        upgrade,
        continues,
        path,
    }
}
