// C17 scenarios: values of the wire data types.
use super::src_trait::Src;

pub const SB: usize = 3;

#[derive(Clone, Copy, Debug)]
pub struct SStr {
    pub len: usize,
    pub b: [u8; SB],
}

pub fn draw_str<S: Src>(s: &mut S) -> SStr {
    let len = s.below(SB as u8 + 1) as usize;
    let mut b = [0u8; SB];
    let mut i = 0;
    while i < SB {
        let c = s.u8();
        // printable ASCII that needs no JSON escaping
        s.assume(c >= 0x23 && c < 0x7f && c != b'\\');
        b[i] = c;
        i += 1;
    }
    SStr { len, b }
}

impl SStr {
    pub fn to_string(&self) -> String {
        let mut v = Vec::with_capacity(SB);
        let mut i = 0;
        while i < self.len && i < SB {
            v.push(self.b[i]);
            i += 1;
        }
        unsafe { String::from_utf8_unchecked(v) }
    }
}

/// parameters: 0 absent, 1 null, 2 true, 3 false
#[derive(Clone, Copy, Debug)]
pub struct ReqVal {
    pub more: Option<bool>,
    pub oneway: Option<bool>,
    pub upgrade: Option<bool>,
    pub method: SStr,
    pub params: u8,
}

pub fn draw_req<S: Src>(s: &mut S) -> ReqVal {
    ReqVal {
        more: s.opt_bool(),
        oneway: s.opt_bool(),
        upgrade: s.opt_bool(),
        method: draw_str(s),
        params: s.below(4),
    }
}

#[derive(Clone, Copy, Debug)]
pub struct ReplyVal {
    pub continues: Option<bool>,
    pub has_error: bool,
    pub error: SStr,
    pub params: u8,
}

pub fn draw_reply<S: Src>(s: &mut S) -> ReplyVal {
    ReplyVal {
        continues: s.opt_bool(),
        has_error: s.bool(),
        error: draw_str(s),
        params: s.below(4),
    }
}

#[derive(Clone, Copy, Debug)]
pub struct InfoVal {
    pub vendor: SStr,
    pub product: SStr,
    pub version: SStr,
    pub url: SStr,
    pub nifaces: usize,
    pub ifaces: [SStr; 2],
}

pub fn draw_info<S: Src>(s: &mut S) -> InfoVal {
    InfoVal {
        vendor: draw_str(s),
        product: draw_str(s),
        version: draw_str(s),
        url: draw_str(s),
        nifaces: s.below(3) as usize,
        ifaces: [draw_str(s), draw_str(s)],
    }
}

/// string set with 0..=2 of the elements "a", "b"
#[derive(Clone, Copy, Debug)]
pub struct SetVal {
    pub has_a: bool,
    pub has_b: bool,
}

pub fn draw_set<S: Src>(s: &mut S) -> SetVal {
    SetVal {
        has_a: s.bool(),
        has_b: s.bool(),
    }
}

#[derive(Clone, Copy, Debug)]
pub struct OptStrVal {
    pub some: bool,
    pub s: SStr,
}

pub fn draw_optstr<S: Src>(s: &mut S) -> OptStrVal {
    OptStrVal {
        some: s.bool(),
        s: draw_str(s),
    }
}
