// Source of scenario values. Under Kani every draw is a fresh solver variable
// (kani::any); natively the same draws are replayed from the byte vectors that
// Kani's concrete playback printed for a counterexample. Scenario builders are
// written once against this trait so that the harness and the native replayer
// agree on how a counterexample maps to an input.

pub trait Src {
    fn u8(&mut self) -> u8;
    fn bool(&mut self) -> bool {
        // Kani's playback encodes bool as one byte; draw a byte and constrain it.
        let b = self.u8();
        self.assume(b <= 1);
        b == 1
    }
    fn assume(&mut self, c: bool);
    /// value in 0..n (n >= 1, n <= 255)
    fn below(&mut self, n: u8) -> u8 {
        let v = self.u8();
        self.assume(v < n);
        v
    }
    fn opt_bool(&mut self) -> Option<bool> {
        match self.below(3) {
            0 => None,
            1 => Some(false),
            _ => Some(true),
        }
    }
}

#[cfg(kani)]
pub struct KSrc;

#[cfg(kani)]
impl Src for KSrc {
    fn u8(&mut self) -> u8 {
        kani::any()
    }
    fn assume(&mut self, c: bool) {
        kani::assume(c)
    }
}

/// Native replay source: the concrete values of a Kani counterexample, in draw order.
#[cfg(not(kani))]
pub struct VecSrc {
    pub vals: Vec<u8>,
    pub pos: usize,
    pub violated_assume: bool,
}

#[cfg(not(kani))]
impl VecSrc {
    pub fn new(vals: Vec<u8>) -> Self {
        VecSrc {
            vals,
            pos: 0,
            violated_assume: false,
        }
    }
}

#[cfg(not(kani))]
impl Src for VecSrc {
    fn u8(&mut self) -> u8 {
        let v = self.vals.get(self.pos).copied().unwrap_or(0);
        self.pos += 1;
        v
    }
    fn assume(&mut self, c: bool) {
        if !c {
            self.violated_assume = true;
        }
    }
}
