// Source of scenario values. Under Kani every draw is a fresh solver variable
// (kani::any); natively the same draws are replayed from the byte vectors that
// Kani's concrete playback printed for a counterexample. Scenario builders are
// written once against this trait so that the harness and the native replayer
// agree on how a counterexample maps to an input.

pub trait Src {
    fn u8(&mut self) -> u8;
    fn bool(&mut self) -> bool {
        // Kani's playback encodes bool as one byte; draw a byte and constrain it.
        let b = self.u8();
        self.assume(b <= 1);
        b == 1
    }
    fn assume(&mut self, c: bool);
    /// value in 0..n (n >= 1, n <= 255)
    fn below(&mut self, n: u8) -> u8 {
        let v = self.u8();
        self.assume(v < n);
        v
    }
    fn opt_bool(&mut self) -> Option<bool> {
        match self.below(3) {
            0 => None,
            1 => Some(false),
            _ => Some(true),
        }
    }
}

#[cfg(kani)]
pub struct KSrc;

#[cfg(kani)]
impl Src for KSrc {
    fn u8(&mut self) -> u8 {
        kani::any()
    }
    fn assume(&mut self, c: bool) {
        kani::assume(c)
    }
}

/// Native replay source: the concrete values of a Kani counterexample, in draw order.
#[cfg(not(kani))]
pub struct VecSrc {
    pub vals: Vec<u8>,
    pub pos: usize,
    pub violated_assume: bool,
}

#[cfg(not(kani))]
impl VecSrc {
    pub fn new(vals: Vec<u8>) -> Self {
        VecSrc {
            vals,
            pos: 0,
            violated_assume: false,
        }
    }
}

#[cfg(not(kani))]
impl Src for VecSrc {
    fn u8(&mut self) -> u8 {
        let v = self.vals.get(self.pos).copied().unwrap_or(0);
        self.pos += 1;
        v
    }
    fn assume(&mut self, c: bool) {
        if !c {
            self.violated_assume = true;
        }
    }
}

/// Native witness search: enumerates every assignment of the scenario's draws (odometer over
/// the domain sizes the draws announce). Used to extract a concrete, natively reproducing
/// witness for a violation CBMC has decided exists, when the scenario space is small —
/// CBMC's own trace generation takes 15-20 minutes on the handle-level formulas.
#[cfg(not(kani))]
pub struct EnumSrc {
    pub vals: Vec<u8>,
    pub sizes: Vec<u16>,
    pub pos: usize,
    pub violated_assume: bool,
    pub not_enumerable: bool,
}

#[cfg(not(kani))]
impl EnumSrc {
    pub fn new() -> Self {
        EnumSrc {
            vals: Vec::new(),
            sizes: Vec::new(),
            pos: 0,
            violated_assume: false,
            not_enumerable: false,
        }
    }
    fn draw(&mut self, size: u16) -> u8 {
        if self.pos >= self.vals.len() {
            self.vals.push(0);
            self.sizes.push(size);
        }
        self.sizes[self.pos] = size;
        let v = self.vals[self.pos];
        self.pos += 1;
        v
    }
    /// advance to the next assignment; false when the space is exhausted
    pub fn next(&mut self) -> bool {
        self.pos = 0;
        self.violated_assume = false;
        let mut i = self.vals.len();
        while i > 0 {
            i -= 1;
            if (self.vals[i] as u16) + 1 < self.sizes[i] {
                self.vals[i] += 1;
                self.vals.truncate(i + 1);
                self.sizes.truncate(i + 1);
                return true;
            }
        }
        false
    }
}

#[cfg(not(kani))]
impl Src for EnumSrc {
    fn u8(&mut self) -> u8 {
        self.not_enumerable = true;
        self.draw(256)
    }
    fn bool(&mut self) -> bool {
        self.draw(2) == 1
    }
    fn below(&mut self, n: u8) -> u8 {
        self.draw(n as u16)
    }
    fn assume(&mut self, c: bool) {
        if !c {
            self.violated_assume = true;
        }
    }
}
