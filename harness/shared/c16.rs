// C16 scenarios: the activation environment and address strings.
use super::src_trait::Src;

pub const OWN_PID: u32 = 77;

#[derive(Clone, Copy, Debug)]
pub struct EnvStr {
    pub present: bool,
    pub len: usize,
    pub b: [u8; 2],
}

fn draw_env<S: Src>(s: &mut S) -> EnvStr {
    let present = s.bool();
    let len = s.below(3) as usize;
    let b0 = s.u8();
    let b1 = s.u8();
    // digits, sign characters, a letter, a blank: everything usize::from_str distinguishes
    let ok = |c: u8| (c >= b'0' && c <= b'9') || c == b'+' || c == b'-' || c == b' ' || c == b'x';
    s.assume(ok(b0) && ok(b1));
    EnvStr {
        present,
        len,
        b: [b0, b1],
    }
}

/// LISTEN_FDNAMES candidates
pub const FDNAMES: [&str; 9] = [
    "varlink",
    "a:varlink",
    "a:b",
    "varlink:x",
    "",
    "a:b:varlink",
    // names that merely contain / start with / end with "varlink"
    "varlinkx:varlink",
    "a:varlinkx",
    "xvarlink:b",
];

#[derive(Clone, Copy, Debug)]
pub struct Activation {
    pub fds: EnvStr,
    pub pid: EnvStr,
    pub names_present: bool,
    pub names: u8,
}

pub fn draw_activation<S: Src>(s: &mut S) -> Activation {
    Activation {
        fds: draw_env(s),
        pid: draw_env(s),
        names_present: s.bool(),
        names: s.below(FDNAMES.len() as u8),
    }
}

/// usize::from_str on a string of at most two bytes from the alphabet above
pub fn ref_parse(e: &EnvStr) -> Option<usize> {
    if !e.present || e.len == 0 {
        return None;
    }
    let mut i = 0;
    if e.b[0] == b'+' {
        i = 1;
    }
    if i >= e.len {
        return None;
    }
    let mut v = 0usize;
    while i < e.len {
        let c = e.b[i];
        if c < b'0' || c > b'9' {
            return None;
        }
        v = v * 10 + (c - b'0') as usize;
        i += 1;
    }
    Some(v)
}

/// what the property demands of a server started with this environment:
/// Some(fd) = use the inherited descriptor fd, None = do not use activation
pub fn expected_fd(a: &Activation) -> Option<usize> {
    let nfds = match ref_parse(&a.fds) {
        Some(n) if n >= 1 => n,
        _ => return None,
    };
    if ref_parse(&a.pid) != Some(OWN_PID as usize) {
        return None;
    }
    if nfds == 1 {
        return Some(3);
    }
    if !a.names_present {
        return None;
    }
    let names = FDNAMES[a.names as usize];
    let mut idx = 0;
    for part in names.split(':') {
        if part == "varlink" {
            return Some(3 + idx);
        }
        idx += 1;
    }
    None
}

pub fn env_string(e: &EnvStr) -> Option<String> {
    if !e.present {
        return None;
    }
    Some(String::from_utf8_lossy(&e.b[..e.len.min(2)]).to_string())
}

// ---- address strings --------------------------------------------------------------------

pub const ALEN: usize = 8;

#[derive(Clone, Copy, Debug)]
pub struct Addr {
    pub b: [u8; ALEN],
}

pub fn draw_addr<S: Src>(s: &mut S) -> Addr {
    let mut b = [0u8; ALEN];
    let mut i = 0;
    while i < ALEN {
        // the characters the address syntax distinguishes, plus a letter and a digit
        b[i] = match s.below(10) {
            0 => b't',
            1 => b'c',
            2 => b'p',
            3 => b':',
            4 => b'u',
            5 => b'n',
            6 => b'i',
            7 => b'x',
            8 => b'@',
            _ => b';',
        };
        i += 1;
    }
    Addr { b }
}

pub const SCHEME_NONE: u8 = 0;
pub const SCHEME_TCP: u8 = 1;
pub const SCHEME_ABSTRACT: u8 = 2;
pub const SCHEME_UNIX: u8 = 3;

fn starts(b: &[u8; ALEN], p: &[u8]) -> bool {
    let mut i = 0;
    while i < p.len() {
        if b[i] != p[i] {
            return false;
        }
        i += 1;
    }
    true
}

/// scheme of the address and the (start, end) of the part handed to the socket constructor
pub fn classify(a: &Addr) -> (u8, usize, usize) {
    let upto_semicolon = |from: usize| {
        let mut e = from;
        while e < ALEN && a.b[e] != b';' {
            e += 1;
        }
        e
    };
    if starts(&a.b, b"tcp:") {
        (SCHEME_TCP, 4, ALEN)
    } else if starts(&a.b, b"unix:@") {
        (SCHEME_ABSTRACT, 6, upto_semicolon(6))
    } else if starts(&a.b, b"unix:") {
        (SCHEME_UNIX, 5, upto_semicolon(5))
    } else {
        (SCHEME_NONE, 0, 0)
    }
}
