// C11 scenario (duplicates, order of appearance): a member list; the kinds are constants of the
// harness instance, every member's name is solver-chosen from {"A", "B"}.
use super::src_trait::Src;

pub const NM: usize = 3;
pub const K_METHOD: u8 = 0;
pub const K_TYPE: u8 = 1;
pub const K_ERROR: u8 = 2;

#[derive(Clone, Copy, Debug)]
pub struct C11 {
    /// name of member i: false = "A", true = "B"
    pub name_b: [bool; NM],
}

pub fn draw<S: Src>(s: &mut S) -> C11 {
    let mut name_b = [false; NM];
    let mut i = 0;
    while i < NM {
        name_b[i] = s.bool();
        i += 1;
    }
    C11 { name_b }
}

pub fn letter(b: bool) -> u8 {
    if b {
        b'B'
    } else {
        b'A'
    }
}

/// some name is defined twice among the first n members
pub fn has_duplicate(sc: &C11, n: usize) -> bool {
    let mut i = 0;
    while i < n {
        let mut j = i + 1;
        while j < n {
            if sc.name_b[i] == sc.name_b[j] {
                return true;
            }
            j += 1;
        }
        i += 1;
    }
    false
}

/// kinds of a harness instance from its name suffix, e.g. "mte"
pub fn kinds_of(suffix: &str) -> (usize, [u8; NM]) {
    let mut k = [0u8; NM];
    let mut n = 0;
    for c in suffix.bytes() {
        if n < NM {
            k[n] = match c {
                b'm' => K_METHOD,
                b't' => K_TYPE,
                _ => K_ERROR,
            };
            n += 1;
        }
    }
    (n, k)
}
