// C11 scenario (duplicates): a member list; kinds are constants of the harness instance,
// names are drawn from a pool of two.
use super::src_trait::Src;

pub const NM: usize = 3;
pub const K_METHOD: u8 = 0;
pub const K_TYPE: u8 = 1;
pub const K_ERROR: u8 = 2;

#[derive(Clone, Copy, Debug)]
pub struct C11 {
    /// name of member i: false = "Aa", true = "Bb"
    pub name_b: [bool; NM],
}

pub fn draw<S: Src>(s: &mut S) -> C11 {
    let mut name_b = [false; NM];
    let mut i = 0;
    while i < NM {
        name_b[i] = s.bool();
        i += 1;
    }
    C11 { name_b }
}

pub fn name_of(b: bool) -> &'static str {
    if b {
        "Bb"
    } else {
        "Aa"
    }
}

/// some name is defined twice among the first n members
pub fn has_duplicate(sc: &C11, n: usize) -> bool {
    let mut i = 0;
    while i < n {
        let mut j = i + 1;
        while j < n {
            if sc.name_b[i] == sc.name_b[j] {
                return true;
            }
            j += 1;
        }
        i += 1;
    }
    false
}
