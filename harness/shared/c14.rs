// C14 scenario: one acceptor step (ThreadPool::execute) from an arbitrary pool state.
use super::src_trait::Src;

#[derive(Clone, Copy, Debug)]
pub struct C14 {
    /// worker threads that exist
    pub workers: u8,
    /// configured maximum
    pub max: u8,
    /// connections accepted and not yet finished (queued or being served) before this step
    pub outstanding: u8,
}

pub fn draw<S: Src>(s: &mut S, bound: u8) -> C14 {
    let workers = s.below(bound + 1);
    let max = s.below(bound + 1);
    let outstanding = s.below(bound + 1);
    s.assume(workers >= 1 && max >= 1);
    C14 {
        workers,
        max,
        outstanding,
    }
}

/// Representation invariant of a pool reached from ThreadPool::new(initial <= max, max)
/// by any history of accepts and completions:
///   bound:        workers <= max
///   no stranding: workers >= min(outstanding, max)   (each unfinished connection has a
///                 worker of its own unless the pool is at its bound)
pub fn invariant(workers: usize, max: usize, outstanding: usize) -> bool {
    let need = if outstanding < max { outstanding } else { max };
    workers <= max && workers >= need
}
