// Code shared by the Kani harnesses (inside the overlay crate) and the native replayer:
// the value source and the per-property scenario builders. Only `super::` paths are used
// so that the tree can be mounted at any module path.
pub mod src_trait;
pub mod c01;
pub mod c04;
pub mod c05;
pub mod c11;
pub mod c12;
pub mod c14;
pub mod c16;
pub mod c17;
