// Scenario for the per-connection loop VarlinkService::handle (C01, C02 upgrade clause, C06):
// a stream of K framed messages; for each, whether it parses, which path of the loop its
// method name selects, and what the dispatched interface does (how many replies it writes,
// and whether it returns Ok, returns Err, or asks for an upgrade).
//
// What a *particular* interface replies (built-in service, unknown interface, reply flags)
// is the business of VarlinkService::call / Interface::call / Call::reply_* and is verified
// at that level (C03, C04, C05).
use super::src_trait::Src;

pub const KMAX: usize = 3;

pub const T_DISPATCH: u8 = 0; // a.b.M  -> dispatched to interface "a.b"
pub const T_NODOT: u8 = 1; // nodot  -> no interface part
pub const T_EMPTY: u8 = 2; // ""
// further dispatched shapes (C03: the name is split at the LAST dot, whatever is around it)
pub const T_LEADING_DOT: u8 = 3; // .M      -> interface ""
pub const T_DOUBLE_DOT: u8 = 4; // a..M    -> interface "a."
pub const T_TRAILING_DOT: u8 = 5; // M.      -> interface "M"
pub const T_SERVICE: u8 = 6; // org.varlink.service.GetInfo -> interface "org.varlink.service"
pub const T_UNKNOWN_IFACE: u8 = 7; // x.y.M  -> interface "x.y", which is NOT registered
pub const NTARGETS: u8 = 8;

pub fn method_of(t: u8) -> &'static str {
    match t {
        T_DISPATCH => "a.b.M",
        T_NODOT => "nodot",
        T_EMPTY => "",
        T_LEADING_DOT => ".M",
        T_DOUBLE_DOT => "a..M",
        T_TRAILING_DOT => "M.",
        T_UNKNOWN_IFACE => "x.y.M",
        _ => "org.varlink.service.GetInfo",
    }
}

/// interface part = the method up to its last dot; None if there is no dot
pub fn iface_of(t: u8) -> Option<&'static str> {
    match t {
        T_DISPATCH => Some("a.b"),
        T_NODOT | T_EMPTY => None,
        T_LEADING_DOT => Some(""),
        T_DOUBLE_DOT => Some("a."),
        T_TRAILING_DOT => Some("M"),
        T_UNKNOWN_IFACE => Some("x.y"),
        _ => Some("org.varlink.service"),
    }
}

/// is the interface the method names registered (or the library's own)?
pub fn is_registered(t: u8) -> bool {
    iface_of(t).is_some() && t != T_UNKNOWN_IFACE
}

pub const O_OK: u8 = 0; // implementation returns Ok(())
pub const O_ERR: u8 = 1; // implementation returns Err(..): the connection must be closed
pub const O_UPGRADE: u8 = 2; // implementation calls to_upgraded() and returns Ok(())
pub const NOUTCOMES: u8 = 3;

pub const MAXREPLIES: u8 = 2;

#[derive(Clone, Copy, Debug)]
pub struct Msg {
    pub parse_ok: bool,
    pub target: u8,
    /// replies the dispatched implementation writes before returning
    pub nreplies: u8,
    pub outcome: u8,
}

impl Msg {
    pub const fn blank() -> Msg {
        Msg {
            parse_ok: true,
            target: 0,
            nreplies: 0,
            outcome: 0,
        }
    }
}

#[derive(Clone, Copy, Debug)]
pub struct C01 {
    pub k: usize,
    pub msgs: [Msg; KMAX],
}

pub fn draw_msg<S: Src>(s: &mut S) -> Msg {
    Msg {
        parse_ok: s.bool(),
        target: s.below(NTARGETS),
        nreplies: s.below(MAXREPLIES + 1),
        outcome: s.below(NOUTCOMES),
    }
}

pub fn draw<S: Src>(s: &mut S, k: usize) -> C01 {
    let mut msgs = [Msg::blank(); KMAX];
    let mut i = 0;
    while i < k && i < KMAX {
        msgs[i] = draw_msg(s);
        i += 1;
    }
    C01 { k, msgs }
}

pub const E_NONE: u8 = b'-';
pub const E_IFACE_NOT_FOUND: u8 = b'I';
pub const E_INVALID_PARAM: u8 = b'P';
pub const E_METHOD_NOT_FOUND: u8 = b'M';
pub const E_OTHER: u8 = b'X';

#[derive(Clone, Copy, Debug, PartialEq)]
pub struct Expect {
    /// replies written by the dispatched implementation
    pub script_replies: usize,
    /// the library itself answers with InterfaceNotFound
    pub iface_not_found: bool,
    /// the connection is closed at this request
    pub closes: bool,
    /// the loop must stop and hand the connection over to the upgraded handler
    pub upgraded: bool,
}

pub fn expect(m: &Msg) -> Expect {
    let mut e = Expect {
        script_replies: 0,
        iface_not_found: false,
        closes: false,
        upgraded: false,
    };
    if !m.parse_ok {
        e.closes = true;
        return e;
    }
    if is_registered(m.target) {
        e.script_replies = m.nreplies as usize;
        match m.outcome {
            O_OK => {}
            O_ERR => e.closes = true,
            _ => e.upgraded = true,
        }
    } else {
        e.iface_not_found = true;
    }
    e
}

/// JSON text of one request (for the native replayer and for reports)
pub fn request_json(m: &Msg) -> String {
    if !m.parse_ok {
        return String::from("{\"method\":");
    }
    format!("{{\"method\":\"{}\"}}", method_of(m.target))
}

/// upgraded stream: 5 arbitrary bytes, and how many trailing bytes the upgraded handler
/// reports as unread (0 or 1)
pub fn draw_upgraded<S: Src>(s: &mut S) -> ([u8; 5], usize) {
    let mut d = [0u8; 5];
    let mut i = 0;
    while i < 5 {
        d[i] = s.u8();
        i += 1;
    }
    let keep = s.below(2) as usize;
    (d, keep)
}
