// Scenario for the per-connection loop (C01 / C04 / C06 and, with an upgrade op, C02):
// a stream of K framed messages; for each, what the JSON parser finds (or that it fails),
// which kind of target the method names, and — for the registered interface — what the
// method implementation does.
use super::src_trait::Src;

pub const KMAX: usize = 3;
pub const MAXOPS: usize = 2;

// targets
pub const T_GETINFO: u8 = 0; // org.varlink.service.GetInfo
pub const T_GETDESC: u8 = 1; // org.varlink.service.GetInterfaceDescription
pub const T_BUILTIN_UNKNOWN: u8 = 2; // org.varlink.service.Nope
pub const T_REGISTERED: u8 = 3; // a.b.M   (interface a.b is registered, scripted)
pub const T_UNKNOWN_IFACE: u8 = 4; // a.c.M
pub const T_NODOT: u8 = 5; // nodot
pub const T_EMPTY: u8 = 6; // ""
pub const NTARGETS: u8 = 7;

pub fn method_of(t: u8) -> &'static str {
    match t {
        T_GETINFO => "org.varlink.service.GetInfo",
        T_GETDESC => "org.varlink.service.GetInterfaceDescription",
        T_BUILTIN_UNKNOWN => "org.varlink.service.Nope",
        T_REGISTERED => "a.b.M",
        T_UNKNOWN_IFACE => "a.c.M",
        T_NODOT => "nodot",
        _ => "",
    }
}

// parameters
pub const P_ABSENT: u8 = 0;
pub const P_NULL: u8 = 1;
pub const P_NONOBJECT: u8 = 2; // true
pub const P_EMPTYOBJ: u8 = 3; // {}
pub const P_IFACE_REG: u8 = 4; // {"interface":"a.b"}
pub const P_IFACE_UNKNOWN: u8 = 5; // {"interface":"zz"}
pub const P_IFACE_SERVICE: u8 = 6; // {"interface":"org.varlink.service"}
pub const NPARAMS: u8 = 7;

pub fn params_json(p: u8) -> &'static str {
    match p {
        P_ABSENT => "",
        P_NULL => ",\"parameters\":null",
        P_NONOBJECT => ",\"parameters\":true",
        P_EMPTYOBJ => ",\"parameters\":{}",
        P_IFACE_REG => ",\"parameters\":{\"interface\":\"a.b\"}",
        P_IFACE_UNKNOWN => ",\"parameters\":{\"interface\":\"zz\"}",
        _ => ",\"parameters\":{\"interface\":\"org.varlink.service\"}",
    }
}

// ops of the registered interface's method implementation
pub const OP_CONT_ON: u8 = 0; // call.set_continues(true)
pub const OP_CONT_OFF: u8 = 1; // call.set_continues(false)
pub const OP_REPLY: u8 = 2; // call.reply_struct(Reply::parameters(None))?
pub const OP_REPLY_ERR: u8 = 3; // call.reply_struct(Reply::error("a.b.E", None))?
pub const OP_INVALID_PARAM: u8 = 4; // call.reply_invalid_parameter("p")?
pub const OP_FAIL: u8 = 5; // return Err(..)   (connection is closed by the caller)
pub const OP_UPGRADE: u8 = 6; // call.to_upgraded()
pub const NOPS: u8 = 7;

#[derive(Clone, Copy, Debug)]
pub struct Msg {
    pub parse_ok: bool,
    pub more: Option<bool>,
    pub oneway: Option<bool>,
    pub upgrade: Option<bool>,
    pub target: u8,
    pub params: u8,
    pub nops: u8,
    pub ops: [u8; MAXOPS],
}

impl Msg {
    pub const fn blank() -> Msg {
        Msg {
            parse_ok: true,
            more: None,
            oneway: None,
            upgrade: None,
            target: 0,
            params: 0,
            nops: 0,
            ops: [0; MAXOPS],
        }
    }
    pub fn is_oneway(&self) -> bool {
        self.oneway == Some(true)
    }
    pub fn wants_more(&self) -> bool {
        self.more == Some(true)
    }
}

#[derive(Clone, Copy, Debug)]
pub struct C01 {
    pub k: usize,
    pub msgs: [Msg; KMAX],
}

pub fn draw_msg<S: Src>(s: &mut S, allow_upgrade_op: bool) -> Msg {
    let parse_ok = s.bool();
    let more = s.opt_bool();
    let oneway = s.opt_bool();
    let upgrade = s.opt_bool();
    let target = s.below(NTARGETS);
    let params = s.below(NPARAMS);
    let nops = s.below(MAXOPS as u8 + 1);
    let mut ops = [0u8; MAXOPS];
    let mut i = 0;
    while i < MAXOPS {
        let o = s.below(NOPS);
        s.assume(allow_upgrade_op || o != OP_UPGRADE);
        ops[i] = o;
        i += 1;
    }
    Msg {
        parse_ok,
        more,
        oneway,
        upgrade,
        target,
        params,
        nops,
        ops,
    }
}

pub fn draw<S: Src>(s: &mut S, k: usize) -> C01 {
    let mut msgs = [Msg::blank(); KMAX];
    let mut i = 0;
    while i < k && i < KMAX {
        msgs[i] = draw_msg(s, false);
        i += 1;
    }
    C01 { k, msgs }
}

// ------------------------------------------------------------------------------------
// What the property demands for one message, given the scenario. Shared by the harness
// oracle and the native replayer so both judge by the same rule.

pub const E_NONE: u8 = b'-';
pub const E_IFACE_NOT_FOUND: u8 = b'I';
pub const E_INVALID_PARAM: u8 = b'P';
pub const E_METHOD_NOT_FOUND: u8 = b'M';
pub const E_OTHER: u8 = b'X';

#[derive(Clone, Copy, Debug, PartialEq)]
pub struct Expect {
    /// number of reply messages written for this request
    pub writes: usize,
    /// (continues flag set, error code) of each reply, in order
    pub cont: [bool; MAXOPS],
    pub err: [u8; MAXOPS],
    /// the connection is closed at this request (parse error, or the dispatch returned Err)
    pub closes: bool,
    /// the method implementation asked for an upgrade
    pub upgraded: bool,
}

pub fn expect(m: &Msg) -> Expect {
    let mut e = Expect {
        writes: 0,
        cont: [false; MAXOPS],
        err: [E_NONE; MAXOPS],
        closes: false,
        upgraded: false,
    };
    if !m.parse_ok {
        e.closes = true;
        return e;
    }
    let silent = m.is_oneway();
    let one = |e: &mut Expect, code: u8| {
        if !silent {
            e.writes = 1;
            e.err[0] = code;
        }
    };
    match m.target {
        T_GETINFO => one(&mut e, E_NONE),
        T_GETDESC => match m.params {
            P_ABSENT | P_NULL => one(&mut e, E_INVALID_PARAM),
            // not an object / no `interface` member: the arguments do not deserialize;
            // the dispatch fails and the connection is closed without a reply
            P_NONOBJECT | P_EMPTYOBJ => e.closes = true,
            P_IFACE_REG | P_IFACE_SERVICE => one(&mut e, E_NONE),
            _ => one(&mut e, E_INVALID_PARAM),
        },
        T_BUILTIN_UNKNOWN => one(&mut e, E_METHOD_NOT_FOUND),
        T_REGISTERED => {
            let mut cont = false;
            let mut i = 0;
            while i < m.nops as usize && i < MAXOPS {
                match m.ops[i] {
                    OP_CONT_ON => cont = true,
                    OP_CONT_OFF => cont = false,
                    OP_REPLY | OP_REPLY_ERR | OP_INVALID_PARAM => {
                        if !silent {
                            if cont && !m.wants_more() {
                                // continues without more: error, nothing written
                                e.closes = true;
                                return e;
                            }
                            let w = e.writes;
                            e.cont[w] = cont;
                            e.err[w] = match m.ops[i] {
                                OP_REPLY => E_NONE,
                                OP_REPLY_ERR => E_OTHER,
                                _ => E_INVALID_PARAM,
                            };
                            e.writes += 1;
                        }
                    }
                    OP_FAIL => {
                        e.closes = true;
                        return e;
                    }
                    _ => e.upgraded = true,
                }
                i += 1;
            }
        }
        _ => one(&mut e, E_IFACE_NOT_FOUND),
    }
    e
}

/// JSON text of one request (for the native replayer and for reports)
pub fn request_json(m: &Msg) -> String {
    if !m.parse_ok {
        return String::from("{\"method\":");
    }
    let f = |name: &str, v: Option<bool>| match v {
        None => String::new(),
        Some(b) => format!(",\"{}\":{}", name, b),
    };
    format!(
        "{{\"method\":\"{}\"{}{}{}{}}}",
        method_of(m.target),
        f("more", m.more),
        f("oneway", m.oneway),
        f("upgrade", m.upgrade),
        params_json(m.params)
    )
}
