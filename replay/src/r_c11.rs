// C11 native side: what the real parser says about a text.
//   vreplay c11_batch <file>      one hex-encoded text per line -> one verdict letter per line
//   vreplay c11_<instance> v,...  v[0] = the reference grammar's verdict (1 = in the language),
//                                 v[1..] = the text; reproduced iff the real parser disagrees
// Verdict letters: O = Ok, I = Err(Idl) (syntactically accepted, duplicate names), P = Err(Parse),
// E = any other error, X = panic.
use crate::Outcome;
use std::convert::TryFrom;

pub fn verdict(text: &str) -> char {
    let t = text.to_string();
    let r = std::panic::catch_unwind(move || match varlink_parser::IDL::try_from(t.as_str()) {
        Ok(_) => 'O',
        Err(varlink_parser::Error::Idl(_)) => 'I',
        Err(varlink_parser::Error::Parse { .. }) => 'P',
        #[allow(unreachable_patterns)]
        Err(_) => 'E',
    });
    r.unwrap_or('X')
}

fn unhex(s: &str) -> Vec<u8> {
    let b = s.trim().as_bytes();
    let mut out = Vec::new();
    let mut i = 0;
    while i + 1 < b.len() {
        let h = (b[i] as char).to_digit(16).unwrap_or(0) as u8;
        let l = (b[i + 1] as char).to_digit(16).unwrap_or(0) as u8;
        out.push(h * 16 + l);
        i += 2;
    }
    out
}

pub fn batch(path: &str) {
    std::panic::set_hook(Box::new(|_| {}));
    let data = std::fs::read_to_string(path).unwrap_or_default();
    for line in data.lines() {
        let bytes = unhex(line);
        match String::from_utf8(bytes) {
            Ok(s) => println!("{}", verdict(&s)),
            Err(_) => println!("U"),
        }
    }
}

/// which part of a definition the differing text exercises (not its values)
fn area(harness: &str) -> &'static str {
    if harness.contains("_name") {
        "interface-name"
    } else if harness.contains("_type") {
        "type-expression"
    } else if harness.contains("_member") {
        "member"
    } else {
        "layout"
    }
}

pub fn witness(harness: &str, vals: &[u8]) -> Outcome {
    if vals.is_empty() {
        return Outcome { reproduced: false, role: String::new(), scenario: String::new(), detail: "no witness".into() };
    }
    let in_ref = vals[0] != 0;
    let text = match String::from_utf8(vals[1..].to_vec()) {
        Ok(t) => t,
        Err(_) => {
            return Outcome { reproduced: false, role: String::new(), scenario: String::new(), detail: "witness is not UTF-8".into() }
        }
    };
    let v = verdict(&text);
    let accepted = v == 'O' || v == 'I';
    let reproduced = accepted != in_ref || v == 'X' || v == 'E';
    let role = format!(
        "{}:{}",
        area(harness),
        if v == 'X' {
            "panic"
        } else if accepted {
            "accepted-outside-the-grammar"
        } else {
            "rejected-inside-the-grammar"
        }
    );
    Outcome {
        reproduced,
        role,
        scenario: format!("IDL::try_from({:?})", text),
        detail: format!(
            "real parser: {} ; reference grammar: {}",
            match v {
                'O' => "Ok",
                'I' => "Err(Idl) (syntax accepted)",
                'P' => "Err(Parse)",
                'X' => "panic",
                _ => "other error",
            },
            if in_ref { "in the language" } else { "not in the language" }
        ),
    }
}
