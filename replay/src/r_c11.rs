// C11 native side: what the real parser says about a text.
//   vreplay c11_batch <file>      one hex-encoded text per line -> one verdict letter per line
//   vreplay c11_<instance> v,...  v[0] = the reference grammar's verdict (1 = in the language),
//                                 v[1..] = the text; reproduced iff the real parser disagrees
// Verdict letters: O = Ok, I = Err(Idl) (syntactically accepted, duplicate names), P = Err(Parse),
// E = any other error, X = panic.
use crate::Outcome;
use std::convert::TryFrom;

pub fn verdict(text: &str) -> char {
    let t = text.to_string();
    let r = std::panic::catch_unwind(move || match varlink_parser::IDL::try_from(t.as_str()) {
        Ok(_) => 'O',
        Err(varlink_parser::Error::Idl(_)) => 'I',
        Err(varlink_parser::Error::Parse { .. }) => 'P',
        #[allow(unreachable_patterns)]
        Err(_) => 'E',
    });
    r.unwrap_or('X')
}

fn unhex(s: &str) -> Vec<u8> {
    let b = s.trim().as_bytes();
    let mut out = Vec::new();
    let mut i = 0;
    while i + 1 < b.len() {
        let h = (b[i] as char).to_digit(16).unwrap_or(0) as u8;
        let l = (b[i + 1] as char).to_digit(16).unwrap_or(0) as u8;
        out.push(h * 16 + l);
        i += 2;
    }
    out
}

pub fn batch(path: &str) {
    std::panic::set_hook(Box::new(|_| {}));
    let data = std::fs::read_to_string(path).unwrap_or_default();
    for line in data.lines() {
        let bytes = unhex(line);
        match String::from_utf8(bytes) {
            Ok(s) => println!("{}", verdict(&s)),
            Err(_) => println!("U"),
        }
    }
}

/// which part of a definition the differing text exercises (not its values)
fn area(harness: &str) -> &'static str {
    if harness.contains("_name") {
        "interface-name"
    } else if harness.contains("_type") {
        "type-expression"
    } else if harness.contains("_member") {
        "member"
    } else {
        "layout"
    }
}

pub fn witness(harness: &str, vals: &[u8]) -> Outcome {
    if vals.is_empty() {
        return Outcome { reproduced: false, role: String::new(), scenario: String::new(), detail: "no witness".into() };
    }
    let in_ref = vals[0] != 0;
    let text = match String::from_utf8(vals[1..].to_vec()) {
        Ok(t) => t,
        Err(_) => {
            return Outcome { reproduced: false, role: String::new(), scenario: String::new(), detail: "witness is not UTF-8".into() }
        }
    };
    let v = verdict(&text);
    let accepted = v == 'O' || v == 'I';
    let reproduced = accepted != in_ref || v == 'X' || v == 'E';
    let role = format!(
        "{}:{}",
        area(harness),
        if v == 'X' {
            "panic"
        } else if accepted {
            "accepted-outside-the-grammar"
        } else {
            "rejected-inside-the-grammar"
        }
    );
    Outcome {
        reproduced,
        role,
        scenario: format!("IDL::try_from({:?})", text),
        detail: format!(
            "real parser: {} ; reference grammar: {}",
            match v {
                'O' => "Ok",
                'I' => "Err(Idl) (syntax accepted)",
                'P' => "Err(Parse)",
                'X' => "panic",
                _ => "other error",
            },
            if in_ref { "in the language" } else { "not in the language" }
        ),
    }
}

// ---- duplicates / order of appearance (Kani harnesses c11_dup_<kinds>) ----
use crate::shared::c11::*;
use crate::shared::src_trait::Src;

/// Kani-style scenario (kinds from the harness name, names drawn from {A, B})
pub fn dup<S: Src>(harness: &str, s: &mut S) -> Outcome {
    let (n, kinds) = kinds_of(harness.trim_start_matches("c11_dup_"));
    let sc = draw(s);
    let names: Vec<char> = (0..n).map(|i| letter(sc.name_b[i]) as char).collect();
    judge(&kinds[..n], &names)
}

/// MIR-executor witness: vals = [n, kind0, name0, kind1, name1, ...] (kind 0 method, 1 type, 2 error)
pub fn dup_vals(vals: &[u8]) -> Outcome {
    let n = if vals.is_empty() { 0 } else { vals[0] as usize };
    let mut kinds = Vec::new();
    let mut names = Vec::new();
    for i in 0..n {
        kinds.push(*vals.get(1 + 2 * i).unwrap_or(&0));
        names.push((b'A' + *vals.get(2 + 2 * i).unwrap_or(&0) % 26) as char);
    }
    judge(&kinds, &names)
}

fn judge(kinds: &[u8], names: &[char]) -> Outcome {
    let n = kinds.len();
    let kinds = kinds.to_vec();
    let names = names.to_vec();
    let mut text = String::from("interface a.b\n");
    for i in 0..n {
        let nm = names[i];
        match kinds[i] {
            K_METHOD => text.push_str(&format!("method {}() -> ()\n", nm)),
            K_TYPE => text.push_str(&format!("type {} ()\n", nm)),
            _ => text.push_str(&format!("error {} ()\n", nm)),
        }
    }
    let mut dupl = false;
    for i in 0..n {
        for j in (i + 1)..n {
            if names[i] == names[j] {
                dupl = true;
            }
        }
    }
    let t2 = text.clone();
    let res = std::panic::catch_unwind(move || -> Option<String> {
        match varlink_parser::IDL::try_from(t2.as_str()) {
            Err(varlink_parser::Error::Idl(msg)) => {
                if !dupl {
                    return Some(format!("a definition without duplicates is rejected: {:?}", msg));
                }
                // every duplicated name is named in the error
                for i in 0..n {
                    for j in (i + 1)..n {
                        if names[i] == names[j] && !msg.contains(&format!("`{}`", names[i])) {
                            return Some(format!("duplicated name {} is not named in {:?}", names[i], msg));
                        }
                    }
                }
                None
            }
            Err(e) => Some(format!("unexpected error {:?}", e)),
            Ok(idl) => {
                if dupl {
                    return Some("accepted although a member name is defined twice".to_string());
                }
                let (mut m, mut t, mut e) = (Vec::new(), Vec::new(), Vec::new());
                for i in 0..n {
                    let nm = names[i].to_string();
                    match kinds[i] {
                        K_METHOD => m.push(nm),
                        K_TYPE => t.push(nm),
                        _ => e.push(nm),
                    }
                }
                let got = |v: &Vec<&str>| v.iter().map(|x| x.to_string()).collect::<Vec<_>>();
                if got(&idl.method_keys) != m || got(&idl.typedef_keys) != t || got(&idl.error_keys) != e {
                    return Some(format!(
                        "member lists {:?} {:?} {:?} do not mirror the source {:?} {:?} {:?}",
                        idl.method_keys, idl.typedef_keys, idl.error_keys, m, t, e
                    ));
                }
                if idl.methods.len() != m.len() || idl.typedefs.len() != t.len() || idl.errors.len() != e.len() {
                    return Some("a member is missing from its map".to_string());
                }
                if idl.name != "a.b" {
                    return Some(format!("interface name {:?}", idl.name));
                }
                None
            }
        }
    });
    let bad = match res {
        Err(_) => Some("IDL::try_from panicked".to_string()),
        Ok(b) => b,
    };
    Outcome {
        reproduced: bad.is_some(),
        role: if dupl { "duplicate-name".into() } else { "distinct-names".into() },
        scenario: format!("IDL::try_from({:?})", text),
        detail: bad.unwrap_or_default(),
    }
}
