// C05 native replay: the script runs inside a registered Interface behind the real handle().
use crate::shared::c05::*;
use crate::shared::src_trait::Src;
use crate::Outcome;
use std::io::BufRead;
use varlink::{Call, CallTrait, ConnectionHandler, Reply, VarlinkService};

struct Scripted {
    sc: C05,
    result: std::sync::Mutex<(usize, bool)>,
}

impl varlink::Interface for Scripted {
    fn get_description(&self) -> &'static str {
        "interface a.b\nmethod M() -> ()\n"
    }
    fn get_name(&self) -> &'static str {
        "a.b"
    }
    fn call_upgraded(&self, _c: &mut Call, _b: &mut dyn BufRead) -> varlink::Result<Vec<u8>> {
        Ok(Vec::new())
    }
    fn call(&self, call: &mut Call) -> varlink::Result<()> {
        let mut i = 0;
        while i < self.sc.n as usize && i < NOPS {
            let r = match self.sc.ops[i] {
                OP_CONT_ON => {
                    call.set_continues(true);
                    Ok(())
                }
                OP_CONT_OFF => {
                    call.set_continues(false);
                    Ok(())
                }
                OP_REPLY => call.reply_struct(Reply::parameters(None)),
                _ => call.reply_struct(Reply::error("a.b.E", None)),
            };
            if let Err(e) = r {
                *self.result.lock().unwrap() = (i, matches!(e.kind(), varlink::ErrorKind::CallContinuesMismatch));
                return Ok(());
            }
            i += 1;
        }
        Ok(())
    }
}

pub fn gate<S: Src>(s: &mut S) -> Outcome {
    let sc = draw(s);
    let f = |n: &str, v: Option<bool>| v.map(|b| format!(",\"{}\":{}", n, b)).unwrap_or_default();
    let req = format!("{{\"method\":\"a.b.M\"{}{}{}}}", f("more", sc.more), f("oneway", sc.oneway), f("upgrade", sc.upgrade));
    let iface = Box::new(Scripted {
        sc,
        result: std::sync::Mutex::new((NOPS, false)),
    });
    let res_ptr: *const Scripted = &*iface;
    let svc = VarlinkService::new("v", "p", "1", "u", vec![iface]);
    let mut input = req.clone().into_bytes();
    input.push(0);
    let mut out = Vec::new();
    let _ = svc.handle(&mut &input[..], &mut out, None);
    let (failed_at, mismatch) = *unsafe { &*res_ptr }.result.lock().unwrap();
    let e = expect(&sc);
    let replies: Vec<serde_json::Value> = out.split(|b| *b == 0).filter(|r| !r.is_empty()).filter_map(|r| serde_json::from_slice(r).ok()).collect();
    let mut bad = None;
    if failed_at != e.mismatch_at {
        bad = Some(format!("op #{} failed, expected op #{} to be refused ({} = none)", failed_at, e.mismatch_at, NOPS));
    } else if failed_at < NOPS && !mismatch {
        bad = Some("refusal is not CallContinuesMismatch".to_string());
    } else if replies.len() != e.writes {
        bad = Some(format!("{} replies on the wire, expected {}", replies.len(), e.writes));
    } else {
        for (x, r) in replies.iter().enumerate() {
            let c = r.get("continues").and_then(|c| c.as_bool()).unwrap_or(false);
            if c != e.cont[x] || (c && sc.more != Some(true)) || r.get("error").is_some() != e.is_err[x] {
                bad = Some(format!("reply #{} is {}", x, r));
            }
        }
    }
    Outcome {
        reproduced: bad.is_some(),
        role: if sc.more == Some(true) { "more-request".into() } else { "continues-without-more".into() },
        scenario: format!("request {} ; script {:?}", req, &sc.ops[..sc.n as usize]),
        detail: format!("{} | output {}", bad.unwrap_or_default(), String::from_utf8_lossy(&out).replace('\0', "\\0")),
    }
}
