// C17 native replay: real serde_json, all three entry points in both directions.
use crate::shared::c17::*;
use crate::shared::src_trait::Src;
use crate::Outcome;
use serde_json::Value;
use std::borrow::Cow;
use varlink::{GetInterfaceDescriptionReply, Reply, Request, ServiceInfo, StringHashSet};

fn value_of(params: u8) -> Option<Value> {
    match params {
        0 => None,
        1 => Some(Value::Null),
        2 => Some(Value::Bool(true)),
        _ => Some(Value::Bool(false)),
    }
}

/// drop members whose value is null (the property's equivalence)
fn norm(v: &Value) -> Value {
    match v {
        Value::Object(m) => Value::Object(m.iter().filter(|(_, x)| !x.is_null()).map(|(k, x)| (k.clone(), norm(x))).collect()),
        other => other.clone(),
    }
}

fn three_ways<T>(v: &T, eq: &dyn Fn(&T, &T) -> bool) -> Option<String>
where
    T: serde::Serialize + serde::de::DeserializeOwned + std::fmt::Debug,
{
    let text = match serde_json::to_string(v) {
        Ok(t) => t,
        Err(e) => return Some(format!("to_string failed: {}", e)),
    };
    let bytes = serde_json::to_vec(v).unwrap();
    let val = serde_json::to_value(v).unwrap();
    if serde_json::from_str::<Value>(&text).ok().as_ref() != Some(&val) || bytes != text.as_bytes() {
        return Some(format!("to_string / to_vec / to_value disagree: {} vs {}", text, val));
    }
    match serde_json::from_str::<T>(&text) {
        Ok(b) if eq(&b, v) => {}
        r => return Some(format!("from_str({}) = {:?}", text, r)),
    }
    match serde_json::from_slice::<T>(&bytes) {
        Ok(b) if eq(&b, v) => {}
        r => return Some(format!("from_slice({}) = {:?}", text, r)),
    }
    match serde_json::from_value::<T>(val.clone()) {
        Ok(b) if eq(&b, v) => {}
        r => return Some(format!("from_value({}) = {:?}", val, r)),
    }
    None
}

fn out(bad: Option<String>, role: &str, scenario: String) -> Outcome {
    Outcome {
        reproduced: bad.is_some(),
        role: role.into(),
        scenario,
        detail: bad.unwrap_or_default(),
    }
}

pub fn request<S: Src>(s: &mut S) -> Outcome {
    let rv = draw_req(s);
    let v = Request {
        more: rv.more,
        oneway: rv.oneway,
        upgrade: rv.upgrade,
        method: Cow::Owned(rv.method.to_string()),
        parameters: value_of(rv.params),
    };
    let text = serde_json::to_string(&v).unwrap();
    let val: Value = serde_json::from_str(&text).unwrap();
    let mut bad = None;
    for (k, set) in [("more", rv.more.is_some()), ("oneway", rv.oneway.is_some()), ("upgrade", rv.upgrade.is_some()), ("method", true), ("parameters", rv.params != 0)] {
        if val.get(k).is_some() != set {
            bad = Some(format!("member {} present={} in {}", k, val.get(k).is_some(), text));
        }
    }
    if val.as_object().map(|m| m.len()) != Some(1 + rv.more.is_some() as usize + rv.oneway.is_some() as usize + rv.upgrade.is_some() as usize + (rv.params != 0) as usize) {
        bad = Some(format!("unexpected members in {}", text));
    }
    if bad.is_none() {
        bad = three_ways(&v, &|a: &Request, b: &Request| {
            serde_json::to_value(a).ok().map(|x| norm(&x)) == serde_json::to_value(b).ok().map(|x| norm(&x))
        });
    }
    out(bad, "request", format!("{:?}", v))
}

pub fn reply<S: Src>(s: &mut S) -> Outcome {
    let rv = draw_reply(s);
    let v = Reply {
        continues: rv.continues,
        error: if rv.has_error { Some(Cow::Owned(rv.error.to_string())) } else { None },
        parameters: value_of(rv.params),
    };
    let text = serde_json::to_string(&v).unwrap();
    let val: Value = serde_json::from_str(&text).unwrap();
    let mut bad = None;
    for (k, set) in [("continues", rv.continues.is_some()), ("error", rv.has_error), ("parameters", rv.params != 0)] {
        if val.get(k).is_some() != set {
            bad = Some(format!("member {} present={} in {}", k, val.get(k).is_some(), text));
        }
    }
    if bad.is_none() {
        bad = three_ways(&v, &|a: &Reply, b: &Reply| {
            serde_json::to_value(a).ok().map(|x| norm(&x)) == serde_json::to_value(b).ok().map(|x| norm(&x))
        });
    }
    out(bad, "reply", format!("{:?}", v))
}

pub fn serviceinfo<S: Src>(s: &mut S) -> Outcome {
    let iv = draw_info(s);
    let v = ServiceInfo {
        vendor: Cow::Owned(iv.vendor.to_string()),
        product: Cow::Owned(iv.product.to_string()),
        version: Cow::Owned(iv.version.to_string()),
        url: Cow::Owned(iv.url.to_string()),
        interfaces: iv.ifaces[..iv.nifaces.min(2)].iter().map(|x| Cow::Owned(x.to_string())).collect(),
    };
    let bad = three_ways(&v, &|a: &ServiceInfo, b: &ServiceInfo| a == b);
    out(bad, "serviceinfo", format!("{:?}", v))
}

pub fn description<S: Src>(s: &mut S) -> Outcome {
    let ov = draw_optstr(s);
    let v = GetInterfaceDescriptionReply {
        description: if ov.some { Some(ov.s.to_string()) } else { None },
    };
    let text = serde_json::to_string(&v).unwrap();
    let mut bad = None;
    if text.contains("description") != ov.some {
        bad = Some(format!("description member in {}", text));
    }
    if bad.is_none() {
        bad = three_ways(&v, &|a: &GetInterfaceDescriptionReply, b: &GetInterfaceDescriptionReply| a == b);
    }
    out(bad, "description-reply", format!("{:?}", v))
}

pub fn stringset<S: Src>(s: &mut S, from_draw: bool) -> Outcome {
    let (a, b) = if from_draw {
        let sv = draw_set(s);
        (sv.has_a, sv.has_b)
    } else {
        (s.bool(), false)
    };
    let mut v = StringHashSet::new();
    if a {
        v.insert("a".into());
    }
    if b {
        v.insert("b".into());
    }
    let text = serde_json::to_string(&v).unwrap();
    let val: Value = serde_json::from_str(&text).unwrap();
    let mut bad = None;
    let shape_ok = val.as_object().map(|m| m.len() == v.len() && m.iter().all(|(k, x)| v.contains(k) && x.as_object().map(|o| o.is_empty()).unwrap_or(false))).unwrap_or(false);
    if !shape_ok {
        bad = Some(format!("a string set must be an object of empty objects, got {}", text));
    }
    if bad.is_none() {
        bad = three_ways(&v, &|x: &StringHashSet, y: &StringHashSet| x == y);
    }
    out(bad, "string-set", format!("{:?}", v))
}

pub fn stringset_empty() -> Outcome {
    let v = StringHashSet::new();
    let text = serde_json::to_string(&v).unwrap();
    let mut bad = None;
    if text != "{}" {
        bad = Some(format!("the empty string set is written as {}", text));
    }
    if bad.is_none() {
        bad = three_ways(&v, &|x: &StringHashSet, y: &StringHashSet| x == y);
    }
    out(bad, "empty-string-set", "StringHashSet::new()".into())
}
