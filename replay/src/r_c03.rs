// C03 native replay: the built-in interface and the routing, through the real handle().
use crate::shared::c17::draw_str;
use crate::shared::src_trait::Src;
use crate::Outcome;
use serde_json::{json, Value};
use varlink::{ConnectionHandler, VarlinkService};

fn ask(svc: &VarlinkService, req: &str) -> (bool, Vec<Value>) {
    let mut input = req.as_bytes().to_vec();
    input.push(0);
    let mut out = Vec::new();
    let r = svc.handle(&mut &input[..], &mut out, None);
    let replies = out.split(|b| *b == 0).filter(|p| !p.is_empty()).filter_map(|p| serde_json::from_slice(p).ok()).collect();
    (r.is_ok(), replies)
}

fn verdict(bad: Option<String>, role: &str, scenario: String) -> Outcome {
    Outcome {
        reproduced: bad.is_some(),
        role: role.into(),
        scenario,
        detail: bad.unwrap_or_default(),
    }
}

pub fn run<S: Src>(h: &str, s: &mut S) -> Outcome {
    match h {
        "c03_builtin_getinfo" => {
            let (v, p, ver, u) = (draw_str(s).to_string(), draw_str(s).to_string(), draw_str(s).to_string(), draw_str(s).to_string());
            let svc = VarlinkService::new(v.clone(), p.clone(), ver.clone(), u.clone(), vec![]);
            let req = r#"{"method":"org.varlink.service.GetInfo"}"#;
            let (ok, rep) = ask(&svc, req);
            let want = json!({"parameters": {"vendor": v, "product": p, "version": ver, "url": u, "interfaces": ["org.varlink.service"]}});
            let bad = if ok && rep.len() == 1 && rep[0] == want { None } else { Some(format!("got {:?}, want {}", rep, want)) };
            verdict(bad, "getinfo", req.into())
        }
        "c03_builtin_unknown_method" => {
            let _ = draw_str(s);
            let svc = VarlinkService::new("v", "p", "1", "u", vec![]);
            let req = r#"{"method":"org.varlink.service.Nope"}"#;
            let (ok, rep) = ask(&svc, req);
            let want = json!({"error": "org.varlink.service.MethodNotFound", "parameters": {"method": "org.varlink.service.Nope"}});
            let bad = if ok && rep.len() == 1 && rep[0] == want { None } else { Some(format!("got {:?}, want {}", rep, want)) };
            verdict(bad, "unknown-builtin-method", req.into())
        }
        "c03_builtin_getdesc_noparams" | "c03_builtin_getdesc_nonobject" | "c03_builtin_getdesc_emptyobj"
        | "c03_builtin_getdesc_unregistered" | "c03_builtin_getdesc_service" => {
            let svc = VarlinkService::new("v", "p", "1", "u", vec![]);
            let (params, want): (String, Option<Value>) = match h {
                "c03_builtin_getdesc_noparams" => (String::new(), Some(json!({"error": "org.varlink.service.InvalidParameter", "parameters": {"parameter": "parameters"}}))),
                "c03_builtin_getdesc_nonobject" => (",\"parameters\":true".into(), None),
                "c03_builtin_getdesc_emptyobj" => (",\"parameters\":{}".into(), None),
                "c03_builtin_getdesc_unregistered" => {
                    let name = draw_str(s).to_string();
                    (
                        format!(",\"parameters\":{{\"interface\":{}}}", serde_json::to_string(&name).unwrap()),
                        Some(json!({"error": "org.varlink.service.InvalidParameter", "parameters": {"parameter": "interface"}})),
                    )
                }
                _ => (
                    ",\"parameters\":{\"interface\":\"org.varlink.service\"}".into(),
                    Some(json!({"parameters": {"description": varlink::Interface::get_description(&svc)}})),
                ),
            };
            let req = format!("{{\"method\":\"org.varlink.service.GetInterfaceDescription\"{}}}", params);
            let (ok, rep) = ask(&svc, &req);
            let bad = match want {
                Some(w) => if ok && rep.len() == 1 && rep[0] == w { None } else { Some(format!("got {:?}, want {}", rep, w)) },
                None => if !ok && rep.is_empty() { None } else { Some(format!("undeserializable arguments: handle ok={}, replies {:?}", ok, rep)) },
            };
            verdict(bad, "get-interface-description", req)
        }
        _ => {
            let (method, want): (&str, Value) = match h {
                "c03_route_service" => ("org.varlink.service.GetInfo", Value::Null),
                "c03_route_unregistered" => ("a.b.M", json!({"error": "org.varlink.service.InterfaceNotFound", "parameters": {"interface": "a.b"}})),
                "c03_route_prefix_of_service" => ("org.varlink.service", json!({"error": "org.varlink.service.InterfaceNotFound", "parameters": {"interface": "org.varlink"}})),
                "c03_route_empty" => (".M", json!({"error": "org.varlink.service.InterfaceNotFound", "parameters": {"interface": ""}})),
                _ => return verdict(Some(format!("no native replayer for {}", h)), "none", String::new()),
            };
            let svc = VarlinkService::new("v", "p", "1", "u", vec![]);
            let req = format!("{{\"method\":\"{}\"}}", method);
            let (ok, rep) = ask(&svc, &req);
            let bad = if want.is_null() {
                if ok && rep.len() == 1 && rep[0].get("error").is_none() { None } else { Some(format!("got {:?}", rep)) }
            } else if ok && rep.len() == 1 && rep[0] == want {
                None
            } else {
                Some(format!("got {:?}, want {}", rep, want))
            };
            verdict(bad, "routing", req)
        }
    }
}

// ---- populated interface table (solver side: smt/c03_table.py) ----
struct Named(&'static str);
impl varlink::Interface for Named {
    fn get_description(&self) -> &'static str {
        "interface x.y\nmethod M() -> ()\n"
    }
    fn get_name(&self) -> &'static str {
        self.0
    }
    fn call_upgraded(&self, _c: &mut varlink::Call, _b: &mut dyn std::io::BufRead) -> varlink::Result<Vec<u8>> {
        Ok(Vec::new())
    }
    fn call(&self, call: &mut varlink::Call) -> varlink::Result<()> {
        varlink::CallTrait::reply_struct(call, varlink::Reply::parameters(Some(json!({ "who": self.0 }))))
    }
}

const POOL: [&str; 6] = ["x.a", "x.b", "x.c", "x.d", "x.e", "x.f"];

/// vals = [0, n, name index of each registered interface]  |  [1, which (0 service, 1 first, 2 second, 3 unregistered)]
pub fn table(vals: &[u8]) -> Outcome {
    let g = |i: usize| *vals.get(i).unwrap_or(&0);
    if g(0) == 0 {
        let n = g(1) as usize;
        let names: Vec<&'static str> = (0..n).map(|i| POOL[(g(2 + i) as usize) % POOL.len()]).collect();
        let ifaces: Vec<Box<dyn varlink::Interface + Send + Sync>> = names.iter().map(|n| Box::new(Named(n)) as Box<dyn varlink::Interface + Send + Sync>).collect();
        let svc = VarlinkService::new("v", "p", "1", "u", ifaces);
        let req = r#"{"method":"org.varlink.service.GetInfo"}"#;
        let (ok, rep) = ask(&svc, req);
        let list: Vec<String> = rep
            .get(0)
            .and_then(|r| r.get("parameters"))
            .and_then(|p| p.get("interfaces"))
            .and_then(|l| l.as_array())
            .map(|l| l.iter().filter_map(|x| x.as_str().map(|s| s.to_string())).collect())
            .unwrap_or_default();
        let mut bad = None;
        if !ok || list.first().map(|s| s.as_str()) != Some("org.varlink.service") {
            bad = Some(format!("GetInfo lists {:?}", list));
        }
        let mut distinct: Vec<&str> = names.clone();
        distinct.sort();
        distinct.dedup();
        for d in &distinct {
            if list.iter().filter(|x| x.as_str() == *d).count() != 1 {
                bad = Some(format!("registered {:?}, GetInfo lists {:?}", names, list));
            }
        }
        if list.len() != distinct.len() + 1 {
            bad = Some(format!("registered {:?}, GetInfo lists {:?}", names, list));
        }
        // every registered name is routed to an interface of that name
        for d in &distinct {
            let (_, r) = ask(&svc, &format!("{{\"method\":\"{}.M\"}}", d));
            let who = r.get(0).and_then(|r| r.get("parameters")).and_then(|p| p.get("who")).and_then(|w| w.as_str()).map(|s| s.to_string());
            if who.as_deref() != Some(*d) {
                bad = Some(format!("call to {}.M answered by {:?}", d, who));
            }
        }
        return verdict(bad, "interface-table", format!("VarlinkService::new(.., {:?}) then GetInfo", names));
    }
    let svc = VarlinkService::new("v", "p", "1", "u", vec![Box::new(Named("x.a")), Box::new(Named("x.b"))]);
    let target = match g(1) {
        0 => "org.varlink.service",
        1 => "x.a",
        2 => "x.b",
        _ => "x.z",
    };
    let req = if g(1) == 0 { r#"{"method":"org.varlink.service.GetInfo"}"#.to_string() } else { format!("{{\"method\":\"{}.M\"}}", target) };
    let (_, r) = ask(&svc, &req);
    let r0 = r.get(0).cloned().unwrap_or(Value::Null);
    let who = r0.get("parameters").and_then(|p| p.get("who")).and_then(|w| w.as_str());
    let bad = match g(1) {
        0 => if r0.get("parameters").and_then(|p| p.get("vendor")).is_some() { None } else { Some(format!("GetInfo answered {}", r0)) },
        1 | 2 => if who == Some(target) { None } else { Some(format!("{} answered {}", req, r0)) },
        _ => {
            let want = json!({"error": "org.varlink.service.InterfaceNotFound", "parameters": {"interface": "x.z"}});
            if r0 == want { None } else { Some(format!("{} answered {}", req, r0)) }
        }
    };
    verdict(bad, "routing", format!("table {{x.a, x.b}}: {}", req))
}
