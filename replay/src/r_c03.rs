// C03 native replay: the built-in interface and the routing, through the real handle().
use crate::shared::c17::draw_str;
use crate::shared::src_trait::Src;
use crate::Outcome;
use serde_json::{json, Value};
use varlink::{ConnectionHandler, VarlinkService};

fn ask(svc: &VarlinkService, req: &str) -> (bool, Vec<Value>) {
    let mut input = req.as_bytes().to_vec();
    input.push(0);
    let mut out = Vec::new();
    let r = svc.handle(&mut &input[..], &mut out, None);
    let replies = out.split(|b| *b == 0).filter(|p| !p.is_empty()).filter_map(|p| serde_json::from_slice(p).ok()).collect();
    (r.is_ok(), replies)
}

fn verdict(bad: Option<String>, role: &str, scenario: String) -> Outcome {
    Outcome {
        reproduced: bad.is_some(),
        role: role.into(),
        scenario,
        detail: bad.unwrap_or_default(),
    }
}

pub fn run<S: Src>(h: &str, s: &mut S) -> Outcome {
    match h {
        "c03_builtin_getinfo" => {
            let (v, p, ver, u) = (draw_str(s).to_string(), draw_str(s).to_string(), draw_str(s).to_string(), draw_str(s).to_string());
            let svc = VarlinkService::new(v.clone(), p.clone(), ver.clone(), u.clone(), vec![]);
            let req = r#"{"method":"org.varlink.service.GetInfo"}"#;
            let (ok, rep) = ask(&svc, req);
            let want = json!({"parameters": {"vendor": v, "product": p, "version": ver, "url": u, "interfaces": ["org.varlink.service"]}});
            let bad = if ok && rep.len() == 1 && rep[0] == want { None } else { Some(format!("got {:?}, want {}", rep, want)) };
            verdict(bad, "getinfo", req.into())
        }
        "c03_builtin_unknown_method" => {
            let _ = draw_str(s);
            let svc = VarlinkService::new("v", "p", "1", "u", vec![]);
            let req = r#"{"method":"org.varlink.service.Nope"}"#;
            let (ok, rep) = ask(&svc, req);
            let want = json!({"error": "org.varlink.service.MethodNotFound", "parameters": {"method": "org.varlink.service.Nope"}});
            let bad = if ok && rep.len() == 1 && rep[0] == want { None } else { Some(format!("got {:?}, want {}", rep, want)) };
            verdict(bad, "unknown-builtin-method", req.into())
        }
        "c03_builtin_getdesc_noparams" | "c03_builtin_getdesc_nonobject" | "c03_builtin_getdesc_emptyobj"
        | "c03_builtin_getdesc_unregistered" | "c03_builtin_getdesc_service" => {
            let svc = VarlinkService::new("v", "p", "1", "u", vec![]);
            let (params, want): (String, Option<Value>) = match h {
                "c03_builtin_getdesc_noparams" => (String::new(), Some(json!({"error": "org.varlink.service.InvalidParameter", "parameters": {"parameter": "parameters"}}))),
                "c03_builtin_getdesc_nonobject" => (",\"parameters\":true".into(), None),
                "c03_builtin_getdesc_emptyobj" => (",\"parameters\":{}".into(), None),
                "c03_builtin_getdesc_unregistered" => {
                    let name = draw_str(s).to_string();
                    (
                        format!(",\"parameters\":{{\"interface\":{}}}", serde_json::to_string(&name).unwrap()),
                        Some(json!({"error": "org.varlink.service.InvalidParameter", "parameters": {"parameter": "interface"}})),
                    )
                }
                _ => (
                    ",\"parameters\":{\"interface\":\"org.varlink.service\"}".into(),
                    Some(json!({"parameters": {"description": varlink::Interface::get_description(&svc)}})),
                ),
            };
            let req = format!("{{\"method\":\"org.varlink.service.GetInterfaceDescription\"{}}}", params);
            let (ok, rep) = ask(&svc, &req);
            let bad = match want {
                Some(w) => if ok && rep.len() == 1 && rep[0] == w { None } else { Some(format!("got {:?}, want {}", rep, w)) },
                None => if !ok && rep.is_empty() { None } else { Some(format!("undeserializable arguments: handle ok={}, replies {:?}", ok, rep)) },
            };
            verdict(bad, "get-interface-description", req)
        }
        _ => {
            let (method, want): (&str, Value) = match h {
                "c03_route_service" => ("org.varlink.service.GetInfo", Value::Null),
                "c03_route_unregistered" => ("a.b.M", json!({"error": "org.varlink.service.InterfaceNotFound", "parameters": {"interface": "a.b"}})),
                "c03_route_prefix_of_service" => ("org.varlink.service", json!({"error": "org.varlink.service.InterfaceNotFound", "parameters": {"interface": "org.varlink"}})),
                "c03_route_empty" => (".M", json!({"error": "org.varlink.service.InterfaceNotFound", "parameters": {"interface": ""}})),
                _ => return verdict(Some(format!("no native replayer for {}", h)), "none", String::new()),
            };
            let svc = VarlinkService::new("v", "p", "1", "u", vec![]);
            let req = format!("{{\"method\":\"{}\"}}", method);
            let (ok, rep) = ask(&svc, &req);
            let bad = if want.is_null() {
                if ok && rep.len() == 1 && rep[0].get("error").is_none() { None } else { Some(format!("got {:?}", rep)) }
            } else if ok && rep.len() == 1 && rep[0] == want {
                None
            } else {
                Some(format!("got {:?}, want {}", rep, want))
            };
            verdict(bad, "routing", req)
        }
    }
}
