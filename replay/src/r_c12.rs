// C12 native replay: the real parser. The scenario fixes the line structure of the input and
// the offset of the syntax error; natively the same structure is produced behind a valid
// interface header: everything before the offset becomes whitespace / the same line breaks
// (consumed as trivia by the grammar), and a character no rule accepts sits at the offset
// (nothing, if the offset is the end of the input). The property is then judged on what the
// real IDL::try_from reports.
use crate::shared::c12::*;
use crate::shared::src_trait::Src;
use crate::Outcome;
use std::convert::TryFrom;

pub fn error_position<S: Src>(s: &mut S, n: usize) -> Outcome {
    let sc = draw(s, n);
    let header = "interface a.b\n";
    let mut text = String::from(header);
    for i in 0..n {
        let c = sc.text[i];
        if i < sc.pos {
            text.push(if c == b'a' { ' ' } else { c as char });
        } else if i == sc.pos {
            text.push('%');
        } else {
            text.push(c as char);
        }
    }
    let off = header.len() + sc.pos;
    let bytes = text.as_bytes();
    let (start, end, col) = line_of(bytes, off);
    let t2 = text.clone();
    let res = std::panic::catch_unwind(move || match varlink_parser::IDL::try_from(t2.as_str()) {
        Ok(_) => None,
        Err(varlink_parser::Error::Parse { line, column }) => Some((line, column)),
        Err(_) => Some((String::from("<other error>"), 0)),
    });
    let bad = match res {
        Err(_) => Some("IDL::try_from panicked".to_string()),
        Ok(None) => None, // accepted: nothing to judge
        Ok(Some((line, column))) => {
            let want = String::from_utf8_lossy(&bytes[start..end]).to_string();
            if line != want {
                Some(format!("reported line {:?}, the error is on line {:?}", line, want))
            } else if column < 1 || column > line.chars().count() + 1 {
                Some(format!("column {} outside line {:?}", column, line))
            } else if column != col {
                Some(format!("column {} but the error is at column {}", column, col))
            } else {
                None
            }
        }
    };
    Outcome {
        reproduced: bad.is_some(),
        role: if sc.pos == n { "error-at-end-of-input".into() } else { "error-inside-input".into() },
        scenario: format!("input {:?}, syntax error at byte {}", text, off),
        detail: bad.unwrap_or_default(),
    }
}
