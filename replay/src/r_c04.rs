// C04 native replay: the scenario is driven through the public API only — the real
// VarlinkService::handle with the real serde_json and an Interface that takes the reply
// path chosen by the counterexample.
use crate::shared::c04::{draw, C04};
use crate::shared::src_trait::Src;
use crate::Outcome;
use std::io::BufRead;
use varlink::{Call, CallTrait, ConnectionHandler, Reply, VarlinkService};

struct PathIface {
    sc: C04,
}

impl varlink::Interface for PathIface {
    fn get_description(&self) -> &'static str {
        "interface a\nmethod B() -> ()\n"
    }
    fn get_name(&self) -> &'static str {
        "a"
    }
    fn call_upgraded(&self, _call: &mut Call, _b: &mut dyn BufRead) -> varlink::Result<Vec<u8>> {
        Ok(Vec::new())
    }
    fn call(&self, call: &mut Call) -> varlink::Result<()> {
        call.set_continues(self.sc.continues);
        match self.sc.path {
            0 => call.reply_struct(Reply::parameters(None)),
            2 => call.reply_method_not_found("a.B".into()),
            3 => call.reply_method_not_implemented("a.B".into()),
            4 => call.reply_invalid_parameter("p".into()),
            5 => call.reply_interface_not_found(Some("a".into())),
            6 => call.reply_interface_not_found(None),
            _ => call.reply_struct(Reply::error("x.E", None)),
        }
    }
}

fn flag(name: &str, v: Option<bool>) -> String {
    match v {
        None => String::new(),
        Some(b) => format!(",\"{}\":{}", name, b),
    }
}

pub fn path_name(p: u8) -> &'static str {
    match p {
        0 => "reply_struct",
        1 => "reply_parameters",
        2 => "reply_method_not_found",
        3 => "reply_method_not_implemented",
        4 => "reply_invalid_parameter",
        5 | 6 => "reply_interface_not_found",
        _ => "reply_struct(error)",
    }
}

pub fn reply_paths<S: Src>(s: &mut S) -> Outcome {
    let sc = draw(s);
    let method = if sc.path == 1 { "org.varlink.service.GetInfo" } else { "a.B" };
    let req = format!(
        "{{\"method\":\"{}\"{}{}{}}}",
        method,
        flag("more", sc.more),
        flag("oneway", sc.oneway),
        flag("upgrade", sc.upgrade)
    );
    let service = VarlinkService::new("v", "p", "1", "u", vec![Box::new(PathIface { sc })]);
    let mut input = req.clone().into_bytes();
    input.push(0);
    let mut out: Vec<u8> = Vec::new();
    let r = service.handle(&mut &input[..], &mut out, None);
    let nmsgs = out.iter().filter(|b| **b == 0).count();
    let scenario = format!(
        "request {} served by {} with continues={}",
        req,
        path_name(sc.path),
        sc.continues
    );
    let detail = format!(
        "handle -> {}; {} reply message(s), {} bytes: {}",
        if r.is_ok() { "Ok" } else { "Err" },
        nmsgs,
        out.len(),
        String::from_utf8_lossy(&out).replace('\0', "\\0")
    );
    let oneway = sc.oneway == Some(true);
    let mismatch = sc.continues && sc.more != Some(true);
    let reproduced = if oneway {
        !out.is_empty()
    } else if !mismatch {
        !(r.is_ok() && nmsgs == 1)
    } else {
        false
    };
    Outcome {
        reproduced,
        role: if oneway {
            format!("oneway-answered:{}", path_name(sc.path))
        } else {
            format!("normal-reply-count:{}", path_name(sc.path))
        },
        scenario,
        detail,
    }
}
