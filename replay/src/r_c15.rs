// C15 native side: the real varlink::listen on an abstract unix socket, timed. The solver's witness is a
// trace of accept / stop-flag / busy-count observations, which cannot be forced on a real kernel one by
// one; instead the five situations the oracle clauses are about are played in real time and a
// violation is confirmed if any of them misbehaves.
use crate::Outcome;
use std::sync::atomic::{AtomicBool, Ordering};
use std::sync::{mpsc, Arc};
use std::time::{Duration, Instant};

fn spawn_listen(tag: &str, idle: u64, stop: Option<Arc<AtomicBool>>) -> (String, mpsc::Receiver<(bool, bool, Duration)>) {
    let addr = format!("unix:@vreplay-c15-{}-{}", std::process::id(), tag);
    let a2 = addr.clone();
    let (tx, rx) = mpsc::channel();
    std::thread::spawn(move || {
        let svc = varlink::VarlinkService::new("v", "p", "1", "u", vec![]);
        let cfg = varlink::ListenConfig { idle_timeout: idle, stop_listening: stop, ..Default::default() };
        let t0 = Instant::now();
        let r = varlink::listen(svc, &a2, &cfg);
        let timed_out = matches!(&r, Err(e) if matches!(e.kind(), varlink::ErrorKind::Timeout));
        let _ = tx.send((r.is_ok(), timed_out, t0.elapsed()));
    });
    std::thread::sleep(Duration::from_millis(150));
    (addr, rx)
}

fn connect(addr: &str) -> Option<std::os::unix::net::UnixStream> {
    use std::os::linux::net::SocketAddrExt;
    let name = addr.trim_start_matches("unix:@");
    let a = std::os::unix::net::SocketAddr::from_abstract_name(name.as_bytes()).ok()?;
    std::os::unix::net::UnixStream::connect_addr(&a).ok()
}

pub fn run(_vals: &[u8]) -> Outcome {
    let mut bad: Vec<String> = Vec::new();
    let ms = |d: Duration| d.as_millis();
    // S1: idle server, idle_timeout 1 s, no stop flag
    {
        let (_a, rx) = spawn_listen("s1", 1, None);
        match rx.recv_timeout(Duration::from_secs(5)) {
            Ok((_, true, d)) if ms(d) >= 900 => {}
            Ok((ok, tmo, d)) => bad.push(format!("idle server (1 s): ok={} timeout={} after {} ms", ok, tmo, ms(d))),
            Err(_) => bad.push("idle server (1 s) did not return within 5 s".into()),
        }
    }
    // S2: a connection held for 2.2 s must keep the server alive
    {
        let (a, rx) = spawn_listen("s2", 1, None);
        let c = connect(&a);
        if c.is_none() {
            bad.push("could not connect".into());
        }
        // while it is held (and the idle second has passed) the server must still be serving newcomers:
        // a loop that gave up is invisible in the return time, because dropping the pool waits for the held connection
        let early0 = rx.recv_timeout(Duration::from_millis(1500));
        if early0.is_err() {
            use std::io::{Read, Write};
            match connect(&a) {
                Some(mut c2) => {
                    let _ = c2.set_read_timeout(Some(Duration::from_millis(700)));
                    let _ = c2.write_all(b"{\"method\":\"org.varlink.service.GetInfo\"}\0");
                    let mut one = [0u8; 1];
                    if !matches!(c2.read(&mut one), Ok(1)) {
                        bad.push("a second client, arriving while the first connection is still open and the idle time has passed, is not served".into());
                    }
                }
                None => bad.push("a second client could not connect while the first connection was open".into()),
            }
        }
        let early = match early0 {
            Ok(x) => Ok(x),
            Err(_) => rx.recv_timeout(Duration::from_millis(700)),
        };
        if let Ok((ok, tmo, d)) = early {
            bad.push(format!("server returned (ok={} timeout={}) after {} ms while a connection was open", ok, tmo, ms(d)));
        }
        drop(c);
        if early.is_err() {
            match rx.recv_timeout(Duration::from_secs(5)) {
                Ok((_, true, _)) => {}
                Ok((ok, tmo, d)) => bad.push(format!("after the connection closed: ok={} timeout={} after {} ms", ok, tmo, ms(d))),
                Err(_) => bad.push("server did not time out after its only connection closed".into()),
            }
        }
    }
    // S3: stop flag set at 0.4 s, idle_timeout 0
    {
        let flag = Arc::new(AtomicBool::new(false));
        let (_a, rx) = spawn_listen("s3", 0, Some(flag.clone()));
        if let Ok((ok, tmo, d)) = rx.recv_timeout(Duration::from_millis(250)) {
            bad.push(format!("server with an unset stop flag and no idle timeout returned (ok={} timeout={}) after {} ms", ok, tmo, ms(d)));
        } else {
            flag.store(true, Ordering::SeqCst);
            match rx.recv_timeout(Duration::from_millis(1500)) {
                Ok((true, _, _)) => {}
                Ok((ok, tmo, d)) => bad.push(format!("stop flag set: ok={} timeout={} after {} ms", ok, tmo, ms(d))),
                Err(_) => bad.push("server did not stop within 1.5 s of the flag being set".into()),
            }
        }
    }
    // S4: stop flag never set, idle_timeout 1 s
    {
        let flag = Arc::new(AtomicBool::new(false));
        let (_a, rx) = spawn_listen("s4", 1, Some(flag.clone()));
        match rx.recv_timeout(Duration::from_secs(5)) {
            Ok((_, true, d)) if ms(d) >= 900 => {}
            Ok((ok, tmo, d)) => bad.push(format!("idle server with an unset stop flag (1 s): ok={} timeout={} after {} ms", ok, tmo, ms(d))),
            Err(_) => {
                flag.store(true, Ordering::SeqCst);
                bad.push("idle server with an unset stop flag (1 s) did not time out within 5 s".into())
            }
        }
    }
    // S5: stop flag configured (never set), idle_timeout 2 s, one client served 1.2 s after start:
    // the idle period starts again with that connection
    {
        use std::io::{Read, Write};
        let flag = Arc::new(AtomicBool::new(false));
        let (a, rx) = spawn_listen("s5", 2, Some(flag.clone()));
        std::thread::sleep(Duration::from_millis(1050));
        let t_conn = Instant::now();
        match connect(&a) {
            Some(mut c) => {
                let _ = c.set_read_timeout(Some(Duration::from_millis(700)));
                let _ = c.write_all(b"{\"method\":\"org.varlink.service.GetInfo\"}\0");
                let mut one = [0u8; 1];
                let _ = c.read(&mut one);
            }
            None => bad.push("could not connect 1.2 s into a 2 s idle period".into()),
        }
        match rx.recv_timeout(Duration::from_secs(6)) {
            Ok((_, true, _)) => {
                let since = t_conn.elapsed();
                if ms(since) < 1800 {
                    bad.push(format!("timeout {} ms after the last new connection with idle_timeout 2 s (stop flag configured)", ms(since)));
                }
            }
            Ok((ok, tmo, d)) => bad.push(format!("stop flag unset, idle 2 s, one client: ok={} timeout={} after {} ms", ok, tmo, ms(d))),
            Err(_) => {
                flag.store(true, Ordering::SeqCst);
                bad.push("stop flag unset, idle 2 s, one client: no timeout within 6 s".into())
            }
        }
    }
    Outcome {
        reproduced: !bad.is_empty(),
        role: "listen-loop".into(),
        scenario: "real varlink::listen, timed: idle 1 s; a connection held 2.2 s; stop flag set at 0.4 s; unset stop flag with idle 1 s; unset stop flag, idle 2 s, a client at 1.2 s".into(),
        detail: bad.join(" | "),
    }
}
