// Native replayer: re-creates a Kani counterexample against an ordinary build of the same
// source copy, with the real serde_json, no stubs. Prints one JSON line:
//   {"reproduced": bool, "role": "...", "scenario": "...", "detail": "..."}
// `role` names the part the input plays (not its concrete values); known findings are keyed by it.
#![allow(dead_code)]

mod shared;
mod r_c01;
mod r_c04;
mod r_c14;

use shared::src_trait::VecSrc;

pub struct Outcome {
    pub reproduced: bool,
    pub role: String,
    pub scenario: String,
    pub detail: String,
}

fn esc(s: &str) -> String {
    serde_json::to_string(s).unwrap()
}

fn main() {
    let args: Vec<String> = std::env::args().collect();
    if args.len() < 3 {
        eprintln!("usage: vreplay <harness> <v,v,v|->");
        std::process::exit(2);
    }
    let vals: Vec<u8> = if args[2] == "-" {
        vec![]
    } else {
        args[2].split(',').map(|x| x.trim().parse::<u64>().unwrap_or(0) as u8).collect()
    };
    let mut src = VecSrc::new(vals);
    let harness = args[1].as_str();
    let out = std::panic::catch_unwind(move || match harness {
        h if h.starts_with("c01_stream_k1") => r_c01::stream(&mut src, 1, b"t"),
        h if h.starts_with("c01_stream_k2") => r_c01::stream(&mut src, 2, b"t"),
        h if h.starts_with("c01_stream_k3") => r_c01::stream(&mut src, 3, b""),
        "c04_reply_paths" => r_c04::reply_paths(&mut src),
        "c14_execute_step" => r_c14::execute_step(&mut src),
        _ => Outcome {
            reproduced: false,
            role: String::new(),
            scenario: String::new(),
            detail: format!("no native replayer for harness {}", harness),
        },
    });
    let out = match out {
        Ok(o) => o,
        Err(_) => Outcome {
            reproduced: false,
            role: "replayer-panic".into(),
            scenario: String::new(),
            detail: "replayer panicked".into(),
        },
    };
    println!(
        "{{\"reproduced\": {}, \"role\": {}, \"scenario\": {}, \"detail\": {}}}",
        out.reproduced,
        esc(&out.role),
        esc(&out.scenario),
        esc(&out.detail)
    );
}
