// Native replayer: re-creates a Kani counterexample against an ordinary build of the same
// source copy, with the real serde_json, no stubs. Prints one JSON line:
//   {"reproduced": bool, "role": "...", "scenario": "...", "detail": "..."}
// `role` names the part the input plays (not its concrete values); known findings are keyed by it.
#![allow(dead_code)]

mod shared;
mod r_c01;
mod r_c03;
mod r_c04;
mod r_c05;
mod r_c07;
mod r_c11;
mod r_c12;
mod r_c14;
mod r_c15;
mod r_c16;
mod r_c17;
mod r_c19;

use shared::src_trait::VecSrc;

pub struct Outcome {
    pub reproduced: bool,
    pub role: String,
    pub scenario: String,
    pub detail: String,
}

fn esc(s: &str) -> String {
    serde_json::to_string(s).unwrap()
}

fn run<S: shared::src_trait::Src>(harness: &str, src: &mut S) -> Outcome {
    match harness {
        "c02_upgraded_entry" => r_c01::upgraded_entry(src),
        h if h.starts_with("c02_cut") => r_c01::two_chunks(h[7..].parse().unwrap_or(0), src),
        h if h.starts_with("c01_") || h.starts_with("c06_") || h.starts_with("c03_split") => r_c01::instance(h, src),
        h if h.starts_with("c03_") => r_c03::run(h, src),
        h if h.starts_with("c11_dup_") => r_c11::dup(h, src),
        "c04_reply_paths" => r_c04::reply_paths(src),
        "c05_gate" => r_c05::gate(src),
        "c12_error_position" => r_c12::error_position(src, 4),
        "c12_error_position_len6" => r_c12::error_position(src, 6),
        "c14_execute_step" => r_c14::execute_step(src, 5),
        "c14_execute_step_b8" => r_c14::execute_step(src, 8),
        h if h.starts_with("c16_activation") => r_c16::activation(src),
        "c16_scheme" => r_c16::scheme(src),
        h if h.starts_with("c17_request") => r_c17::request(src),
        h if h.starts_with("c17_reply") => r_c17::reply(src),
        "c17_serviceinfo" => r_c17::serviceinfo(src),
        "c17_description_reply" => r_c17::description(src),
        "c17_stringset_deserialize" => r_c17::stringset(src, true),
        "c17_stringset_serialize" => r_c17::stringset(src, false),
        "c17_stringset_serialize_empty" => r_c17::stringset_empty(),
        _ => Outcome {
            reproduced: false,
            role: String::new(),
            scenario: String::new(),
            detail: format!("no native replayer for harness {}", harness),
        },
    }
}

fn print(out: &Outcome, vals: &[u8]) {
    println!(
        "{{\"reproduced\": {}, \"role\": {}, \"scenario\": {}, \"detail\": {}, \"vals\": {:?}}}",
        out.reproduced,
        esc(&out.role),
        esc(&out.scenario),
        esc(&out.detail),
        vals
    );
}

fn main() {
    let args: Vec<String> = std::env::args().collect();
    if args.len() < 3 {
        eprintln!("usage: vreplay <harness> <v,v,v|-|search>");
        std::process::exit(2);
    }
    let harness = args[1].clone();
    if harness == "c11_batch" {
        r_c11::batch(&args[2]);
        return;
    }
    if harness.starts_with("c01_handle_mir") {
        let vals: Vec<u8> = args[2].split(',').filter_map(|x| x.trim().parse::<u64>().ok()).map(|x| x as u8).collect();
        let v2 = vals.clone();
        let out = std::panic::catch_unwind(move || r_c01::mir_script(&v2)).unwrap_or(Outcome {
            reproduced: true,
            role: "panic".into(),
            scenario: String::new(),
            detail: "VarlinkService::handle panicked".into(),
        });
        print(&out, &vals);
        return;
    }
    if harness.starts_with("c03_table_") {
        let vals: Vec<u8> = args[2].split(',').filter_map(|x| x.trim().parse::<u64>().ok()).map(|x| x as u8).collect();
        let v2 = vals.clone();
        let out = std::panic::catch_unwind(move || r_c03::table(&v2)).unwrap_or(Outcome {
            reproduced: true,
            role: "routing".into(),
            scenario: "request for an interface routed through the populated table".into(),
            detail: "VarlinkService::handle panicked".into(),
        });
        print(&out, &vals);
        return;
    }
    if harness.starts_with("c15_") {
        let out = r_c15::run(&[]);
        print(&out, &[]);
        return;
    }
    if ["c05_next", "c05_more", "c05_call", "c07_upgrade", "c04_oneway"].contains(&harness.as_str()) {
        let out = std::panic::catch_unwind(|| r_c07::client_iter(&[])).unwrap_or(Outcome {
            reproduced: true,
            role: "more-iteration".into(),
            scenario: "more() iteration against a scripted reply stream".into(),
            detail: "panicked".into(),
        });
        print(&out, &[]);
        return;
    }
    if harness.starts_with("c07_") {
        let vals: Vec<u8> = args[2].split(',').filter_map(|x| x.trim().parse::<u64>().ok()).map(|x| x as u8).collect();
        let out = r_c07::run(&vals);
        print(&out, &vals);
        return;
    }
    if harness.starts_with("c19_") {
        let vals: Vec<u8> = args[2].split(',').filter_map(|x| x.trim().parse::<u64>().ok()).map(|x| x as u8).collect();
        let out = r_c19::run(&harness, &vals);
        print(&out, &vals);
        return;
    }
    if harness.starts_with("c11_ft_") {
        let vals: Vec<u8> = args[2].split(',').filter_map(|x| x.trim().parse::<u64>().ok()).map(|x| x as u8).collect();
        let out = r_c11::dup_vals(&vals);
        print(&out, &vals);
        return;
    }
    if harness.starts_with("c11_") && !harness.starts_with("c11_dup_") {
        let vals: Vec<u8> = args[2].split(',').filter_map(|x| x.trim().parse::<u64>().ok()).map(|x| x as u8).collect();
        let out = r_c11::witness(&harness, &vals);
        print(&out, &vals);
        return;
    }
    if args[2] == "search" {
        // exhaustive native search for a reproducing assignment of the scenario's draws
        let mut src = shared::src_trait::EnumSrc::new();
        let mut tried = 0u64;
        loop {
            let h = harness.clone();
            let r = {
                let s = &mut src;
                std::panic::catch_unwind(std::panic::AssertUnwindSafe(move || run(&h, s)))
            };
            tried += 1;
            if src.not_enumerable {
                println!("{{\"reproduced\": false, \"role\": \"\", \"scenario\": \"\", \"detail\": \"scenario draws raw bytes: not enumerable\"}}");
                return;
            }
            if let Ok(out) = r {
                if out.reproduced && !src.violated_assume {
                    let vals = src.vals.clone();
                    print(&out, &vals);
                    return;
                }
            }
            if !src.next() || tried > 500_000 {
                break;
            }
        }
        println!(
            "{{\"reproduced\": false, \"role\": \"\", \"scenario\": \"\", \"detail\": \"no reproducing assignment among {} candidates\"}}",
            tried
        );
        return;
    }
    let vals: Vec<u8> = if args[2] == "-" {
        vec![]
    } else {
        args[2].split(',').map(|x| x.trim().parse::<u64>().unwrap_or(0) as u8).collect()
    };
    let mut src = VecSrc::new(vals.clone());
    let out = {
        let s = &mut src;
        std::panic::catch_unwind(std::panic::AssertUnwindSafe(move || run(&harness, s)))
    };
    let out = match out {
        Ok(o) => o,
        Err(_) => Outcome {
            reproduced: false,
            role: "replayer-panic".into(),
            scenario: String::new(),
            detail: "replayer panicked".into(),
        },
    };
    print(&out, &vals);
}
