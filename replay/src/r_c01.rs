// C01 native replay: the scenario's request stream goes through the real
// VarlinkService::handle (real serde_json, real HashMap, real registered Interface);
// the reply bytes and the result are judged by the same expectation as the harness.
use crate::shared::c01::*;
use crate::shared::src_trait::Src;
use crate::Outcome;
use std::io::BufRead;
use std::sync::atomic::{AtomicUsize, Ordering};
use varlink::{Call, CallTrait, ConnectionHandler, Reply, VarlinkService};

pub struct ScriptIface {
    /// how many trailing bytes call_upgraded reports as unread
    pub keep: usize,
    pub name: &'static str,
    pub scripts: Vec<Msg>,
    pub next: AtomicUsize,
    pub upgraded_bytes: std::sync::Mutex<Vec<u8>>,
}

impl varlink::Interface for ScriptIface {
    fn get_description(&self) -> &'static str {
        "interface a.b\nmethod M() -> ()\n"
    }
    fn get_name(&self) -> &'static str {
        self.name
    }
    fn call_upgraded(&self, _call: &mut Call, b: &mut dyn BufRead) -> varlink::Result<Vec<u8>> {
        let mut v = Vec::new();
        loop {
            let n = {
                let buf = b.fill_buf().map_err(varlink::map_context!())?;
                v.extend_from_slice(buf);
                buf.len()
            };
            if n == 0 {
                break;
            }
            b.consume(n);
        }
        self.upgraded_bytes.lock().unwrap().extend_from_slice(&v);
        let at = v.len().saturating_sub(self.keep);
        Ok(v.split_off(at))
    }
    fn call(&self, call: &mut Call) -> varlink::Result<()> {
        let i = self.next.fetch_add(1, Ordering::SeqCst);
        let m = self.scripts[i];
        for _ in 0..m.nreplies.min(MAXREPLIES) {
            call.reply_struct(Reply::parameters(None))?;
        }
        match m.outcome {
            O_OK => Ok(()),
            O_ERR => Err(varlink::context!(varlink::ErrorKind::Generic)),
            _ => {
                call.to_upgraded();
                Ok(())
            }
        }
    }
}

pub fn target_name(t: u8) -> &'static str {
    match t {
        T_DISPATCH => "registered-interface",
        T_NODOT => "method-without-dot",
        T_EMPTY => "empty-method",
        T_LEADING_DOT | T_DOUBLE_DOT | T_TRAILING_DOT => "odd-dots",
        T_SERVICE => "service-interface",
        T_UNKNOWN_IFACE => "unknown-interface",
        _ => "empty-method",
    }
}

pub fn service(sc_msgs: &[Msg]) -> (VarlinkService, *const ScriptIface) {
    // one scripted interface per distinct interface name the stream addresses
    // (org.varlink.service is the library's own)
    let mut names: Vec<&'static str> = Vec::new();
    for m in sc_msgs.iter().filter(|m| m.parse_ok) {
        if let Some(n) = iface_of(m.target) {
            if n != "org.varlink.service" && is_registered(m.target) && !names.contains(&n) {
                names.push(n);
            }
        }
    }
    let mut first: *const ScriptIface = std::ptr::null();
    let mut ifaces: Vec<Box<dyn varlink::Interface + Send + Sync>> = Vec::new();
    for n in names {
        let scripts: Vec<Msg> = sc_msgs.iter().filter(|m| m.parse_ok && iface_of(m.target) == Some(n)).cloned().collect();
        let iface = Box::new(ScriptIface {
            keep: 0,
            name: n,
            scripts,
            next: AtomicUsize::new(0),
            upgraded_bytes: std::sync::Mutex::new(Vec::new()),
        });
        if first.is_null() {
            first = &*iface;
        }
        ifaces.push(iface);
    }
    (VarlinkService::new("v", "p", "1", "u", ifaces), first)
}

unsafe impl Send for ScriptIface {}
unsafe impl Sync for ScriptIface {}

pub fn classify_reply(text: &[u8]) -> Option<(bool, u8)> {
    let v: serde_json::Value = serde_json::from_slice(text).ok()?;
    let cont = v.get("continues").and_then(|c| c.as_bool()).unwrap_or(false);
    let err = match v.get("error").and_then(|e| e.as_str()) {
        None => E_NONE,
        Some("org.varlink.service.InterfaceNotFound") => E_IFACE_NOT_FOUND,
        Some("org.varlink.service.InvalidParameter") => E_INVALID_PARAM,
        Some("org.varlink.service.MethodNotFound") => E_METHOD_NOT_FOUND,
        Some(_) => E_OTHER,
    };
    Some((cont, err))
}

pub fn stream_bytes(sc: &C01, tail: &[u8]) -> Vec<u8> {
    let mut v = Vec::new();
    for i in 0..sc.k {
        v.extend_from_slice(request_json(&sc.msgs[i]).as_bytes());
        v.push(0);
    }
    v.extend_from_slice(tail);
    v
}

/// judge one handle() run against the expectation; returns (violated, role, detail).
/// `rest_of_reader` = bytes the caller's reader still holds after the call.
pub fn judge(sc: &C01, tail: &[u8], input: &[u8], msg_lens: &[usize], rest_of_reader: &[u8], out: &[u8],
             res: &varlink::Result<(Vec<u8>, Option<String>)>, oneway: bool) -> (bool, String, String) {
    let pieces: Vec<&[u8]> = out.split(|b| *b == 0).collect();
    let (replies, trailing) = pieces.split_at(pieces.len() - 1);
    let mut pos = 0usize;
    let mut stop_at = sc.k;
    let mut closes = false;
    let mut upgrades = false;
    let mut offset = 0usize; // end of request i in the input
    let mut end_of_stop = 0usize;
    for i in 0..sc.k {
        let mut e = expect(&sc.msgs[i]);
        if sc.msgs[i].parse_ok && sc.msgs[i].target == T_SERVICE {
            // natively the library's own interface serves this one: exactly one GetInfo reply
            e = Expect {
                script_replies: 1,
                iface_not_found: false,
                closes: false,
                upgraded: false,
            };
        }
        if oneway {
            // natively the implementation replies through Call::reply_struct, which stays silent for
            // a oneway request (the harness model writes to the writer directly)
            e.script_replies = 0;
            e.iface_not_found = false;
        }
        offset += msg_lens[i] + 1;
        let want: Vec<u8> = std::iter::repeat(E_NONE).take(e.script_replies).chain(if e.iface_not_found { Some(E_IFACE_NOT_FOUND) } else { None }).collect();
        for (x, w) in want.iter().enumerate() {
            let got = replies.get(pos + x).and_then(|r| classify_reply(r));
            if got != Some((false, *w)) {
                return (
                    true,
                    format!("request-unanswered-or-misanswered:after-{}", if i > 0 { target_name(sc.msgs[i - 1].target) } else { "nothing" }),
                    format!("request #{} ({}): expected reply kind {}, got {:?}", i, target_name(sc.msgs[i].target), *w as char, got),
                );
            }
        }
        pos += want.len();
        if e.closes || e.upgraded {
            stop_at = i;
            closes = e.closes;
            upgrades = e.upgraded;
            end_of_stop = offset;
            break;
        }
    }
    if replies.len() != pos || !trailing[0].is_empty() {
        return (true, "extra-reply".into(), format!("{} replies written, {} expected", replies.len(), pos));
    }
    if closes {
        if res.is_ok() {
            return (
                true,
                format!("failing-request-does-not-close:{}", target_name(sc.msgs[stop_at].target)),
                format!("request #{} must close the connection but handle returned Ok", stop_at),
            );
        }
    } else if upgrades {
        match res {
            Ok((rest, Some(_))) => {
                let mut all = rest.clone();
                all.extend_from_slice(rest_of_reader);
                if all != input[end_of_stop..] {
                    return (true, "bytes-after-upgrade-lost".into(), format!("after the upgrade request {:?} must remain, got {:?}", &input[end_of_stop..], all));
                }
            }
            other => return (true, "upgrade-not-reported".into(), format!("handle returned {:?}", other.as_ref().map(|x| &x.1).map_err(|e| e.kind().clone()))),
        }
    } else {
        match res {
            Ok((t, None)) if t == tail => {}
            Ok((t, up)) => {
                let culprit = if sc.msgs[..sc.k].iter().any(|m| iface_of(m.target).is_none()) { "method-without-dot" } else { "tail" };
                return (
                    true,
                    format!("incomplete-tail-lost:{}", culprit),
                    format!("handle returned Ok(tail={:?}, upgraded={:?}), expected tail {:?}", t, up, tail),
                );
            }
            Err(e) => {
                return (true, "spurious-close".into(), format!("handle returned Err({:?}) though every request is servable", e.kind()));
            }
        }
    }
    (false, String::new(), String::new())
}

pub fn run_stream(sc: &C01, tail: &[u8], flags: u8, malformed: &str) -> Outcome {
    let k = sc.k;
    let (svc, _p) = service(&sc.msgs[..k]);
    let mut input = Vec::new();
    let mut msg_lens = Vec::new();
    for i in 0..k {
        let mut j = request_json(&sc.msgs[i]);
        if !sc.msgs[i].parse_ok {
            j = malformed.to_string();
        }
        if flags > 0 && sc.msgs[i].parse_ok {
            // the _flags instances: every request carries these flags
            let f = if flags == 1 { "\",\"more\":true,\"oneway\":false}" } else { "\",\"more\":false,\"oneway\":true,\"upgrade\":true}" };
            j = j.replace("\"}", f);
        }
        msg_lens.push(j.len());
        input.extend_from_slice(j.as_bytes());
        input.push(0);
    }
    input.extend_from_slice(tail);
    let mut out: Vec<u8> = Vec::new();
    let mut reader = &input[..];
    let res = svc.handle(&mut reader, &mut out, None);
    let (violated, role, detail) = judge(sc, tail, &input, &msg_lens, reader, &out, &res, flags == 2);
    let scenario = format!(
        "stream {} ; dispatched implementations (replies, outcome 0=Ok 1=Err 2=upgrade): {:?}",
        String::from_utf8_lossy(&input).replace('\0', "\\0"),
        sc.msgs[..k].iter().filter(|m| is_registered(m.target)).map(|m| (m.nreplies, m.outcome)).collect::<Vec<_>>()
    );
    Outcome {
        reproduced: violated,
        role,
        scenario,
        detail: format!("{} | output: {}", detail, String::from_utf8_lossy(&out).replace('\0', "\\0")),
    }
}

/// the harness instances (must mirror harness/lib/c01.rs): (k, tail, fail_at, targets)
/// outcomes pinned by the instance (255 = free)
pub fn pins_of(name: &str) -> [u8; KMAX] {
    match name {
        "c01_k2_err_first" => [O_ERR, 255, 255],
        "c01_k3_err_second" => [O_OK, O_ERR, 255],
        "c01_k2_upgrade_first" => [O_UPGRADE, 255, 255],
        _ => [255; KMAX],
    }
}

pub fn instance_of(name: &str) -> Option<(usize, &'static [u8], usize, [u8; KMAX])> {
    const D: u8 = T_DISPATCH;
    const N: u8 = T_NODOT;
    const E: u8 = T_EMPTY;
    const NF: usize = 9;
    Some(match name {
        "c01_k1_d" | "c01_k1_d_flags" => (1, b"t", NF, [D, D, D]),
        "c01_k1_n" => (1, b"t", NF, [N, D, D]),
        "c01_k1_e" => (1, b"t", NF, [E, D, D]),
        "c01_k1_d_f0" | "c06_k1_malformed" | "c06_k1_truncated" | "c06_k1_wrong_shape" => (1, b"t", 0, [D, D, D]),
        "c01_k2_dd" | "c01_k2_dd_flags2" | "c01_k2_err_first" | "c01_k2_upgrade_first" => (2, b"t", NF, [D, D, D]),
        "c01_k1_u" => (1, b"t", NF, [T_UNKNOWN_IFACE, D, D]),
        "c01_k2_ud" => (2, b"t", NF, [T_UNKNOWN_IFACE, D, D]),
        "c01_k2_du" => (2, b"t", NF, [D, T_UNKNOWN_IFACE, D]),
        "c01_k3_dud" => (3, b"", NF, [D, T_UNKNOWN_IFACE, D]),
        "c01_k2_nd" => (2, b"t", NF, [N, D, D]),
        "c01_k2_dn" => (2, b"t", NF, [D, N, D]),
        "c01_k2_ed" => (2, b"t", NF, [E, D, D]),
        "c01_k2_nn" => (2, b"t", NF, [N, N, D]),
        "c01_k2_dd_f1" | "c06_k2_second_malformed" | "c06_k2_second_truncated" | "c06_k2_second_wrong_shape" => (2, b"t", 1, [D, D, D]),
        "c01_k2_dd_f0" | "c06_k2_first_malformed" | "c06_k2_first_truncated" | "c06_k2_first_wrong_shape" => (2, b"t", 0, [D, D, D]),
        "c01_k3_ddd" | "c01_k3_err_second" => (3, b"", NF, [D, D, D]),
        "c01_k3_dnd" => (3, b"", NF, [D, N, D]),
        "c01_k3_ddd_f2" => (3, b"", 2, [D, D, D]),
        "c03_split_leading_dot" => (1, b"t", NF, [T_LEADING_DOT, D, D]),
        "c03_split_double_dot" => (1, b"t", NF, [T_DOUBLE_DOT, D, D]),
        "c03_split_trailing_dot" => (1, b"t", NF, [T_TRAILING_DOT, D, D]),
        "c03_split_service" => (1, b"t", NF, [T_SERVICE, D, D]),
        _ => return None,
    })
}

pub fn instance<S: Src>(name: &str, s: &mut S) -> Outcome {
    let (k, tail, fail_at, targets) = match instance_of(name) {
        Some(x) => x,
        None => {
            return Outcome {
                reproduced: false,
                role: String::new(),
                scenario: String::new(),
                detail: format!("unknown harness instance {}", name),
            }
        }
    };
    let mut sc = draw(s, k);
    for j in 0..k {
        s.assume(sc.msgs[j].parse_ok == (j != fail_at));
        s.assume(sc.msgs[j].target == targets[j]);
        sc.msgs[j].parse_ok = j != fail_at;
        sc.msgs[j].target = targets[j];
        let pin = pins_of(name)[j];
        if pin != 255 {
            s.assume(sc.msgs[j].outcome == pin);
            sc.msgs[j].outcome = pin;
        }
    }
    // a truncated document (serde_json: EOF while parsing) or a syntax error
    let malformed = if name.contains("truncated") {
        "{\"method\":"
    } else if name.contains("wrong_shape") {
        "{\"method\":42}"
    } else {
        "{\"method\":}"
    };
    let flags = if name.ends_with("_flags") { 1 } else if name.ends_with("_flags2") { 2 } else { 0 };
    run_stream(&sc, tail, flags, malformed)
}

/// C02 native replay: one cut point, real handle, real bytes.
pub fn two_chunks<S: Src>(cut: usize, s: &mut S) -> Outcome {
    let mut sc = draw(s, 2);
    for j in 0..2 {
        s.assume(sc.msgs[j].parse_ok && sc.msgs[j].target == T_DISPATCH && sc.msgs[j].outcome == O_OK);
        sc.msgs[j].parse_ok = true;
        sc.msgs[j].target = T_DISPATCH;
        sc.msgs[j].outcome = O_OK;
    }
    let tail = b"t";
    let input = stream_bytes(&sc, tail);
    // the harness cuts the 5-byte stream 'm' NUL 'm' NUL 't'; natively messages are longer: map the
    // cut to the same structural position (0 start, 1 between the text of message 0 and its NUL,
    // 2 message boundary, 3 between the text of message 1 and its NUL, 4 boundary, 5 end)
    let l0 = request_json(&sc.msgs[0]).len() + 1;
    let l1 = request_json(&sc.msgs[1]).len() + 1;
    let c = match cut {
        0 => 0,
        1 => l0 - 1,
        2 => l0,
        3 => l0 + l1 - 1,
        4 => l0 + l1,
        _ => input.len(),
    };
    let (svc_a, _) = service(&sc.msgs[..2]);
    let mut out_a = Vec::new();
    let res_a = svc_a.handle(&mut &input[..], &mut out_a, None);
    let (svc_b, _) = service(&sc.msgs[..2]);
    let mut out_b = Vec::new();
    let res_1 = svc_b.handle(&mut &input[..c], &mut out_b, None);
    let mut second = match &res_1 {
        Ok((t, None)) => t.clone(),
        other => {
            return Outcome {
                reproduced: true,
                role: "first-chunk-fails".into(),
                scenario: format!("stream {:?} cut at {}", String::from_utf8_lossy(&input), c),
                detail: format!("first chunk: {:?}", other.as_ref().map_err(|e| e.kind().clone())),
            }
        }
    };
    second.extend_from_slice(&input[c..]);
    let res_2 = svc_b.handle(&mut &second[..], &mut out_b, None);
    let ok_tail = |r: &varlink::Result<(Vec<u8>, Option<String>)>| matches!(r, Ok((t, None)) if t == tail);
    let bad = out_a != out_b || !ok_tail(&res_a) || !ok_tail(&res_2);
    Outcome {
        reproduced: bad,
        role: format!("cut-{}", match cut { 0 | 5 => "at-end", 2 | 4 => "on-boundary", _ => "before-the-nul" }),
        scenario: format!("stream {} cut at byte {}", String::from_utf8_lossy(&input).replace('\0', "\\0"), c),
        detail: format!(
            "whole: {} tail {:?} | chunked: {} tail {:?}",
            String::from_utf8_lossy(&out_a).replace('\0', "\\0"),
            res_a.as_ref().map(|x| x.0.clone()).map_err(|e| e.kind().clone()),
            String::from_utf8_lossy(&out_b).replace('\0', "\\0"),
            res_2.as_ref().map(|x| x.0.clone()).map_err(|e| e.kind().clone())
        ),
    }
}

/// C02 native replay of an upgraded stream handed to handle(.., Some(interface))
pub fn upgraded_entry<S: Src>(s: &mut S) -> Outcome {
    let (data, keep) = draw_upgraded(s);
    let iface = Box::new(ScriptIface {
        keep,
        name: "a.b",
        scripts: Vec::new(),
        next: AtomicUsize::new(0),
        upgraded_bytes: std::sync::Mutex::new(Vec::new()),
    });
    let p: *const ScriptIface = &*iface;
    let svc = VarlinkService::new("v", "p", "1", "u", vec![iface]);
    let mut out = Vec::new();
    let res = svc.handle(&mut &data[..], &mut out, Some(String::from("a.b")));
    let seen = unsafe { &*p }.upgraded_bytes.lock().unwrap().clone();
    let mut bad = None;
    if seen != data {
        bad = Some(format!("the upgraded handler could read {:?} of the stream {:?}", seen, data));
    } else if !out.is_empty() {
        bad = Some(format!("handle wrote {:?} on an upgraded stream", out));
    } else {
        match &res {
            Ok((tail, Some(name))) if name == "a.b" && tail[..] == data[5 - keep..] => {}
            other => bad = Some(format!("handle returned {:?}, expected tail {:?} and Some(\"a.b\")", other.as_ref().map_err(|e| e.kind().clone()), &data[5 - keep..])),
        }
    }
    Outcome {
        reproduced: bad.is_some(),
        role: "upgraded-stream".into(),
        scenario: format!("handle(stream {:?}, upgraded interface a.b), handler leaves {} byte(s) unread", data, keep),
        detail: bad.unwrap_or_default(),
    }
}

/// witness of the MIR instance (smt/c01_mir.py): vals = [entered upgraded, (read kind 0 message / 1 partial / 2 eof / 3 io error,
/// parses, has dot, upgrades, implementation fails) ...]; rendered as a real stream and judged by the same native rules as the Kani scenarios
pub fn mir_script(vals: &[u8]) -> Outcome {
    let g = |i: usize| *vals.get(i).unwrap_or(&0);
    if g(0) == 1 {
        return Outcome { reproduced: false, role: String::new(), scenario: String::new(), detail: "entry in upgraded mode is replayed by c02_upgraded_entry".into() };
    }
    let mut sc = C01 { k: 0, msgs: [Msg::blank(); KMAX] };
    let mut tail: &[u8] = b"";
    let mut i = 1;
    while i + 4 < vals.len() + 1 && sc.k < KMAX {
        match g(i) {
            0 => {
                let mut m = Msg::blank();
                m.parse_ok = g(i + 1) == 1;
                m.target = if g(i + 2) == 1 { T_DISPATCH } else { T_NODOT };
                m.nreplies = 1;
                m.outcome = if g(i + 4) == 1 { O_ERR } else if g(i + 3) == 1 { O_UPGRADE } else { O_OK };
                sc.msgs[sc.k] = m;
                sc.k += 1;
            }
            1 => {
                // an incomplete message that would parse if it were (wrongly) looked at
                tail = br#"{"method":"a.b.M"}"#;
                break;
            }
            _ => break,
        }
        i += 5;
    }
    run_stream(&sc, tail, 0, "{")
}
