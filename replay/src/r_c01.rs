// C01 native replay: the scenario's request stream goes through the real
// VarlinkService::handle (real serde_json, real HashMap, real registered Interface);
// the reply bytes and the result are judged by the same expectation as the harness.
use crate::shared::c01::*;
use crate::shared::src_trait::Src;
use crate::Outcome;
use std::io::BufRead;
use std::sync::atomic::{AtomicUsize, Ordering};
use varlink::{Call, CallTrait, ConnectionHandler, Reply, VarlinkService};

pub struct ScriptIface {
    pub scripts: Vec<Msg>,
    pub next: AtomicUsize,
    pub upgraded_bytes: std::sync::Mutex<Vec<u8>>,
    pub unread_suffix: usize,
}

impl varlink::Interface for ScriptIface {
    fn get_description(&self) -> &'static str {
        "interface a.b\nmethod M() -> ()\n"
    }
    fn get_name(&self) -> &'static str {
        "a.b"
    }
    fn call_upgraded(&self, _call: &mut Call, b: &mut dyn BufRead) -> varlink::Result<Vec<u8>> {
        let mut v = Vec::new();
        loop {
            let n = {
                let buf = b.fill_buf().map_err(varlink::map_context!())?;
                v.extend_from_slice(buf);
                buf.len()
            };
            if n == 0 {
                break;
            }
            b.consume(n);
        }
        let keep = v.len().saturating_sub(self.unread_suffix);
        let unread = v.split_off(keep);
        self.upgraded_bytes.lock().unwrap().extend_from_slice(&v);
        Ok(unread)
    }
    fn call(&self, call: &mut Call) -> varlink::Result<()> {
        let i = self.next.fetch_add(1, Ordering::SeqCst);
        let m = self.scripts[i];
        let mut j = 0;
        while j < m.nops as usize && j < MAXOPS {
            match m.ops[j] {
                OP_CONT_ON => call.set_continues(true),
                OP_CONT_OFF => call.set_continues(false),
                OP_REPLY => call.reply_struct(Reply::parameters(None))?,
                OP_REPLY_ERR => call.reply_struct(Reply::error("a.b.E", None))?,
                OP_INVALID_PARAM => call.reply_invalid_parameter("p".into())?,
                OP_FAIL => return Err(varlink::context!(varlink::ErrorKind::Generic)),
                _ => call.to_upgraded(),
            }
            j += 1;
        }
        Ok(())
    }
}

pub fn target_name(t: u8) -> &'static str {
    match t {
        T_GETINFO => "GetInfo",
        T_GETDESC => "GetInterfaceDescription",
        T_BUILTIN_UNKNOWN => "unknown-builtin-method",
        T_REGISTERED => "registered-interface",
        T_UNKNOWN_IFACE => "unknown-interface",
        T_NODOT => "method-without-dot",
        _ => "empty-method",
    }
}

pub fn service(sc_msgs: &[Msg], unread_suffix: usize) -> VarlinkService {
    let scripts: Vec<Msg> = sc_msgs.iter().filter(|m| m.parse_ok && m.target == T_REGISTERED).cloned().collect();
    VarlinkService::new(
        "v",
        "p",
        "1",
        "u",
        vec![Box::new(ScriptIface {
            scripts,
            next: AtomicUsize::new(0),
            upgraded_bytes: std::sync::Mutex::new(Vec::new()),
            unread_suffix,
        })],
    )
}

pub fn classify_reply(text: &[u8]) -> Option<(bool, u8)> {
    let v: serde_json::Value = serde_json::from_slice(text).ok()?;
    let cont = v.get("continues").and_then(|c| c.as_bool()).unwrap_or(false);
    let err = match v.get("error").and_then(|e| e.as_str()) {
        None => E_NONE,
        Some("org.varlink.service.InterfaceNotFound") => E_IFACE_NOT_FOUND,
        Some("org.varlink.service.InvalidParameter") => E_INVALID_PARAM,
        Some("org.varlink.service.MethodNotFound") => E_METHOD_NOT_FOUND,
        Some(_) => E_OTHER,
    };
    Some((cont, err))
}

pub fn stream_bytes(sc: &C01, tail: &[u8]) -> Vec<u8> {
    let mut v = Vec::new();
    for i in 0..sc.k {
        v.extend_from_slice(request_json(&sc.msgs[i]).as_bytes());
        v.push(0);
    }
    v.extend_from_slice(tail);
    v
}

/// judge one handle() run against the expectation; returns (violated, role, detail)
pub fn judge(sc: &C01, tail: &[u8], out: &[u8], res: &varlink::Result<(Vec<u8>, Option<String>)>) -> (bool, String, String) {
    let replies: Vec<&[u8]> = out.split(|b| *b == 0).collect();
    // split leaves one trailing empty piece when the output ends in NUL
    let (replies, trailing) = replies.split_at(replies.len() - 1);
    let mut pos = 0usize;
    let mut closed_at = sc.k;
    for i in 0..sc.k {
        let e = expect(&sc.msgs[i]);
        for x in 0..e.writes {
            let got = replies.get(pos + x).and_then(|r| classify_reply(r));
            if got != Some((e.cont[x], e.err[x])) {
                return (
                    true,
                    format!("wrong-or-missing-reply:{}", target_name(sc.msgs[i].target)),
                    format!("request #{}: expected reply (continues={}, error={}), got {:?}", i, e.cont[x], e.err[x] as char, got),
                );
            }
        }
        pos += e.writes;
        if e.closes {
            closed_at = i;
            break;
        }
    }
    if replies.len() != pos || !trailing[0].is_empty() {
        return (
            true,
            "extra-reply".into(),
            format!("{} replies written, {} expected", replies.len(), pos),
        );
    }
    if closed_at < sc.k {
        if res.is_ok() {
            return (
                true,
                format!("failing-request-does-not-close:{}", target_name(sc.msgs[closed_at].target)),
                format!("request #{} must close the connection but handle returned Ok", closed_at),
            );
        }
    } else {
        match res {
            Ok((t, None)) if t == tail => {}
            Ok((t, up)) => {
                // which request kind made the loop stop early?
                let served = pos;
                let _ = served;
                let mut culprit = "tail";
                for i in 0..sc.k {
                    if matches!(sc.msgs[i].target, T_NODOT | T_EMPTY) && i + 1 < sc.k + tail.len().min(1) {
                        culprit = "method-without-dot";
                        break;
                    }
                }
                return (
                    true,
                    format!("buffered-input-dropped:{}", culprit),
                    format!("handle returned Ok(tail={:?}, upgraded={:?}), expected tail {:?}", t, up, tail),
                );
            }
            Err(e) => {
                return (true, "spurious-close".into(), format!("handle returned Err({:?}) though every request is servable", e.kind()));
            }
        }
    }
    (false, String::new(), String::new())
}

pub fn stream<S: Src>(s: &mut S, k: usize, tail: &[u8]) -> Outcome {
    let sc = draw(s, k);
    let svc = service(&sc.msgs[..k], 0);
    let input = stream_bytes(&sc, tail);
    let mut out: Vec<u8> = Vec::new();
    let res = svc.handle(&mut &input[..], &mut out, None);
    let (violated, role, detail) = judge(&sc, tail, &out, &res);
    let scenario = format!(
        "stream {} ; scripts {:?}",
        String::from_utf8_lossy(&input).replace('\0', "\\0"),
        sc.msgs[..k].iter().map(|m| &m.ops[..m.nops as usize]).collect::<Vec<_>>()
    );
    Outcome {
        reproduced: violated,
        role,
        scenario,
        detail: format!(
            "{} | output: {}",
            detail,
            String::from_utf8_lossy(&out).replace('\0', "\\0")
        ),
    }
}
