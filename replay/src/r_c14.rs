// C14 native replay: the property itself, observed on the real pool with real threads and
// real sockets through varlink::listen — independent of how the pool counts busy workers.
// Config (initial = workers, max) and outstanding+1 long-lived connections:
//   bound:     the number of concurrently served connections never exceeds max
//   stranding: min(outstanding+1, max) connections are in service without any of them finishing
use crate::shared::c14::draw;
use crate::shared::src_trait::Src;
use crate::Outcome;
use std::io::{BufRead, Write};
use std::sync::atomic::{AtomicBool, AtomicUsize, Ordering};
use std::sync::Arc;
use std::time::{Duration, Instant};

struct Blocker {
    active: Arc<AtomicUsize>,
    peak: Arc<AtomicUsize>,
    release: Arc<AtomicBool>,
}

impl varlink::ConnectionHandler for Blocker {
    fn handle(
        &self,
        _r: &mut dyn BufRead,
        _w: &mut dyn Write,
        _u: Option<String>,
    ) -> varlink::Result<(Vec<u8>, Option<String>)> {
        let n = self.active.fetch_add(1, Ordering::SeqCst) + 1;
        self.peak.fetch_max(n, Ordering::SeqCst);
        while !self.release.load(Ordering::SeqCst) {
            std::thread::sleep(Duration::from_millis(5));
        }
        self.active.fetch_sub(1, Ordering::SeqCst);
        Err(varlink::ErrorKind::ConnectionClosed.into())
    }
}

pub fn observe(initial: usize, max: usize, conns: usize, tag: &str) -> (usize, usize) {
    let active = Arc::new(AtomicUsize::new(0));
    let peak = Arc::new(AtomicUsize::new(0));
    let release = Arc::new(AtomicBool::new(false));
    let stop = Arc::new(AtomicBool::new(false));
    let addr = format!("unix:@verif_c14_{}_{}", std::process::id(), tag);
    let h = Blocker {
        active: active.clone(),
        peak: peak.clone(),
        release: release.clone(),
    };
    let (a2, s2) = (addr.clone(), stop.clone());
    let server = std::thread::spawn(move || {
        let _ = varlink::listen(
            h,
            &a2,
            &varlink::ListenConfig {
                initial_worker_threads: initial,
                max_worker_threads: max,
                idle_timeout: 0,
                stop_listening: Some(s2),
            },
        );
    });
    // wait for the socket
    let mut clients = Vec::new();
    let t0 = Instant::now();
    while clients.len() < conns && t0.elapsed() < Duration::from_secs(5) {
        match varlink::Connection::with_address(&addr) {
            Ok(c) => clients.push(c),
            Err(_) => std::thread::sleep(Duration::from_millis(10)),
        }
    }
    let want = if conns < max { conns } else { max };
    let t1 = Instant::now();
    while active.load(Ordering::SeqCst) < want && t1.elapsed() < Duration::from_millis(1500) {
        std::thread::sleep(Duration::from_millis(5));
    }
    // settle: give a surplus worker the chance to show up
    std::thread::sleep(Duration::from_millis(200));
    let in_service = active.load(Ordering::SeqCst);
    let pk = peak.load(Ordering::SeqCst);
    release.store(true, Ordering::SeqCst);
    stop.store(true, Ordering::SeqCst);
    drop(clients);
    let _ = server.join();
    (in_service, pk)
}

pub fn execute_step<S: Src>(s: &mut S, bound: u8) -> Outcome {
    let sc = draw(s, bound);
    let (w, max, o) = (sc.workers as usize, sc.max as usize, sc.outstanding as usize);
    let conns = o + 1;
    let want = if conns < max { conns } else { max };
    let mut worst_peak = 0;
    let mut least_in_service = usize::MAX;
    // thread timing varies: observe a few times, keep the extremes
    for round in 0..3 {
        let (in_service, peak) = observe(w, max, conns, &format!("{}", round));
        if peak > worst_peak {
            worst_peak = peak;
        }
        if in_service < least_in_service {
            least_in_service = in_service;
        }
    }
    let over = worst_peak > max;
    let stranded = least_in_service < want;
    Outcome {
        reproduced: over || stranded,
        role: if over { "more-than-max-served".into() } else { "accepted-connection-stranded".into() },
        scenario: format!(
            "listen(initial_worker_threads={}, max_worker_threads={}) with {} long-lived connections",
            w, max, conns
        ),
        detail: format!(
            "peak concurrently served = {} (max {}), in service without any finishing = {} (expected {})",
            worst_peak, max, least_in_service, want
        ),
    }
}
