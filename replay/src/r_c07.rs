// C07 native side: a real varlink::Connection over in-memory stream halves, real MethodCall objects.
//   vals = [fn (0 send / 1 recv), conn_reader, conn_writer, call_reader, call_writer, call_request, call_method,
//           oneway, more, upgrade, read_outcome (0 io error / 1 eof / 2 message), reply.continues present, value,
//           reply.error present, reply.parameters present]
use crate::Outcome;
use serde_json::{json, Value};
use std::io::{BufReader, Cursor, Read, Write};
use std::sync::{Arc, Mutex, RwLock};
use varlink::{Connection, ErrorKind, MethodCall};

#[derive(Clone)]
struct W(Arc<Mutex<Vec<u8>>>, Arc<Mutex<bool>>);
impl Write for W {
    fn write(&mut self, b: &[u8]) -> std::io::Result<usize> {
        self.0.lock().unwrap().extend_from_slice(b);
        *self.1.lock().unwrap() = true; // bytes handed over but not flushed yet
        Ok(b.len())
    }
    fn flush(&mut self) -> std::io::Result<()> {
        *self.1.lock().unwrap() = false;
        Ok(())
    }
}

struct FailingReader;
impl Read for FailingReader {
    fn read(&mut self, _b: &mut [u8]) -> std::io::Result<usize> {
        Err(std::io::Error::new(std::io::ErrorKind::Other, "scripted"))
    }
}

type Call = MethodCall<Value, Value, varlink::Error>;

fn connection(input: Vec<u8>, fail: bool) -> (Arc<RwLock<Connection>>, W) {
    let w = W(Arc::new(Mutex::new(Vec::new())), Arc::new(Mutex::new(false)));
    let mut c = Connection::default();
    let r: Box<dyn Read + Send + Sync> = if fail { Box::new(FailingReader) } else { Box::new(Cursor::new(input)) };
    c.reader = Some(BufReader::new(r));
    c.writer = Some(Box::new(w.clone()));
    (Arc::new(RwLock::new(c)), w)
}

fn free(c: &Arc<RwLock<Connection>>) -> bool {
    let g = c.read().unwrap();
    g.reader.is_some() && g.writer.is_some()
}

fn messages(w: &W) -> Vec<Value> {
    let b = w.0.lock().unwrap().clone();
    b.split(|x| *x == 0).filter(|m| !m.is_empty()).filter_map(|m| serde_json::from_slice(m).ok()).collect()
}

fn kind_name(e: &varlink::Error) -> String {
    match e.kind() {
        ErrorKind::ConnectionBusy => "ConnectionBusy".into(),
        ErrorKind::MethodCalledAlready => "MethodCalledAlready".into(),
        ErrorKind::IteratorOldReply => "IteratorOldReply".into(),
        ErrorKind::ConnectionClosed => "ConnectionClosed".into(),
        k => format!("{:?}", k).chars().take(40).collect(),
    }
}

pub fn run(vals: &[u8]) -> Outcome {
    let g = |i: usize| *vals.get(i).unwrap_or(&0);
    let out = if g(0) == 0 {
        send(vals)
    } else if g(0) == 2 {
        error_kind(vals)
    } else {
        recv(vals)
    };
    match out {
        Ok(o) => o,
        Err(e) => Outcome { reproduced: false, role: String::new(), scenario: String::new(), detail: format!("not constructible natively: {}", e) },
    }
}

fn send(vals: &[u8]) -> Result<Outcome, String> {
    let g = |i: usize| *vals.get(i).unwrap_or(&0);
    let conn_free = g(1) == 1 && g(2) == 1;
    let fresh = g(5) == 1 && g(6) == 1;
    let (oneway, more, upgrade) = (g(7) == 1, g(8) == 1, g(9) == 1);
    if (oneway as u8) + (more as u8) + (upgrade as u8) > 1 {
        return Err("the public API sets at most one of oneway / more / upgrade".into());
    }
    let reply = b"{\"parameters\":{}}\0{\"parameters\":{}}\0".to_vec();
    let (conn, w) = connection(reply, false);
    let mut call: Call = MethodCall::new(conn.clone(), "a.b.M", json!({}));
    let mut scenario = String::new();
    if !fresh {
        // a call object that has been sent already (as a oneway call, which leaves the connection free)
        call.oneway().map_err(|e| format!("preparing a consumed call failed: {}", e))?;
        scenario.push_str("a call object already sent once; ");
    }
    // stream halves taken out of the connection (by whoever owns the stream at the moment)
    let mut held_r = None;
    let mut held_w = None;
    if g(1) == 0 {
        held_r = conn.write().unwrap().reader.take();
        scenario.push_str("connection reader taken; ");
    }
    if g(2) == 0 {
        held_w = conn.write().unwrap().writer.take();
        scenario.push_str("connection writer taken; ");
    }
    let before = messages(&w).len();
    let was_free = free(&conn);
    let res = std::panic::catch_unwind(std::panic::AssertUnwindSafe(|| -> Result<(), varlink::Error> {
        if oneway {
            call.oneway()
        } else if more {
            call.more().map(|_| ())
        } else if upgrade {
            call.upgrade().map(|_| ())
        } else {
            call.call().map(|_| ())
        }
    }));
    let res = match res {
        Ok(r) => r,
        Err(_) => {
            return Ok(Outcome {
                reproduced: true,
                role: if !fresh { "consumed-call".into() } else if !conn_free { "busy-connection".into() } else { "free-connection".into() },
                scenario,
                detail: "the call panicked".into(),
            })
        }
    };
    scenario.push_str(if oneway { "then oneway()" } else if more { "then more()" } else if upgrade { "then upgrade()" } else { "then call()" });
    let msgs = messages(&w);
    let written = msgs.len() - before;
    let mut bad: Option<String> = None;
    if !fresh {
        match &res {
            Err(e) if kind_name(e) == "MethodCalledAlready" => {}
            other => bad = Some(format!("second send of a call object: {:?}", other.as_ref().map_err(kind_name))),
        }
        if written != 0 {
            bad = Some(format!("{} message(s) written by a consumed call", written));
        }
    } else if !conn_free {
        match &res {
            Err(e) if kind_name(e) == "ConnectionBusy" => {}
            other => bad = Some(format!("call on a busy connection: {:?}", other.as_ref().map_err(kind_name))),
        }
        if written != 0 {
            bad = Some(format!("{} message(s) written while the connection was busy", written));
        }
        if free(&conn) != was_free {
            bad = Some("a refused call changed the connection's slots".into());
        }
    } else {
        if let Err(e) = &res {
            bad = Some(format!("call on a free connection failed: {}", kind_name(e)));
        } else if written != 1 {
            bad = Some(format!("{} messages written for one call", written));
        } else {
            let m = &msgs[before];
            let flag = |n: &str| m.get(n).and_then(|v| v.as_bool()) == Some(true);
            if *w.1.lock().unwrap() {
                bad = Some("the request was written but not flushed".into());
            }
            if flag("oneway") != oneway || flag("more") != more || flag("upgrade") != upgrade {
                bad = Some(format!("request {} does not carry the call mode", m));
            }
            // oneway / call / upgrade (final reply consumed) leave the connection free; more() keeps it
            if free(&conn) == more {
                bad = Some(format!("connection free = {} after {}", free(&conn), scenario));
            }
        }
    }
    drop(held_r);
    drop(held_w);
    Ok(Outcome {
        reproduced: bad.is_some(),
        role: if !fresh { "consumed-call".into() } else if !conn_free { "busy-connection".into() } else { "free-connection".into() },
        scenario,
        detail: bad.unwrap_or_default(),
    })
}

fn recv(vals: &[u8]) -> Result<Outcome, String> {
    let g = |i: usize| *vals.get(i).unwrap_or(&0);
    let owns = g(3) == 1 && g(4) == 1;
    let outcome = g(10);
    let (rc_p, rc_v, re_p, rp_p) = (g(11) == 1, g(12) == 1, g(13) == 1, g(14) == 1);
    let mut reply = serde_json::Map::new();
    if rc_p {
        reply.insert("continues".into(), json!(rc_v));
    }
    if re_p {
        reply.insert("error".into(), json!("a.b.SomeError"));
    }
    if rp_p {
        reply.insert("parameters".into(), json!({}));
    }
    let mut input = Vec::new();
    if outcome == 2 {
        input = serde_json::to_vec(&Value::Object(reply.clone())).unwrap();
        input.push(0);
    }
    let (conn, _w) = connection(input, outcome == 0);
    let mut call: Call = MethodCall::new(conn.clone(), "a.b.M", json!({}));
    let mut scenario;
    if owns {
        call.more().map_err(|e| format!("more() failed: {}", e))?;
        scenario = "more() sent; ".to_string();
    } else {
        scenario = "a call that does not own the stream; ".to_string();
    }
    let res = call.recv();
    scenario.push_str(&match outcome {
        0 => "recv() with a failing reader".to_string(),
        1 => "recv() at end of stream".to_string(),
        _ => format!("recv() of {}", Value::Object(reply)),
    });
    let mut bad: Option<String> = None;
    if !owns {
        match &res {
            Err(e) if kind_name(e) == "IteratorOldReply" => {}
            other => bad = Some(format!("recv without the stream: {:?}", other.as_ref().map_err(kind_name))),
        }
    } else if outcome == 2 {
        let more_coming = rc_p && rc_v;
        if free(&conn) == more_coming {
            bad = Some(format!("connection free = {} after a reply with continues = {}", free(&conn), more_coming));
        }
        if res.is_ok() == re_p {
            bad = Some(format!("reply with error member = {} gives {}", re_p, if res.is_ok() { "Ok" } else { "Err" }));
        }
        // the call's continues flag is private: its public observer is the iterator, which must end after a final reply
        if bad.is_none() && !more_coming {
            if let Some(x) = call.next() {
                bad = Some(format!("after the final reply the iterator yields another item ({}) instead of ending: the call's continues flag is still set",
                                   match x { Ok(v) => v.to_string(), Err(e) => kind_name(&e) }));
            }
        }
    } else if res.is_ok() {
        bad = Some("recv succeeded without a reply".into());
    }
    Ok(Outcome {
        reproduced: bad.is_some(),
        role: if !owns { "no-stream".into() } else if outcome == 2 { "reply".into() } else { "no-reply".into() },
        scenario,
        detail: bad.unwrap_or_default(),
    })
}

/// vals = [2, name (0..3 the standard errors, 4 another name), error present, parameters present, parameters parse, field present]
fn error_kind(vals: &[u8]) -> Result<Outcome, String> {
    let g = |i: usize| *vals.get(i).unwrap_or(&0);
    let names = [
        ("org.varlink.service.InterfaceNotFound", "interface"),
        ("org.varlink.service.InvalidParameter", "parameter"),
        ("org.varlink.service.MethodNotFound", "method"),
        ("org.varlink.service.MethodNotImplemented", "method"),
        ("org.example.SomethingElse", "x"),
    ];
    let (mut name, field) = names[(g(1) as usize).min(4)];
    // an error name the solver picked that is none of the four (e.g. a near miss of one of them)
    let custom: String = if g(1) >= 4 && g(6) > 0 {
        String::from_utf8_lossy(&vals[7..(7 + g(6) as usize).min(vals.len())]).to_string()
    } else {
        String::new()
    };
    let custom_static: &'static str = Box::leak(custom.clone().into_boxed_str());
    if !custom.is_empty() {
        name = custom_static;
    }
    let parameters = if g(3) == 0 {
        None
    } else if g(4) == 0 {
        Some(json!({ field: 5 })) // does not deserialize into the error's parameter struct
    } else if g(5) == 0 {
        Some(json!({}))
    } else {
        Some(json!({ field: "payload" }))
    };
    let want_payload = if g(3) == 1 && g(4) == 1 && g(5) == 1 { "payload" } else { "" };
    let reply = varlink::Reply {
        continues: None,
        error: if g(2) == 1 { Some(name.into()) } else { None },
        parameters: parameters.clone(),
    };
    let scenario = format!("ErrorKind::from(Reply {{ error: {:?}, parameters: {:?} }})", reply.error, parameters);
    let kind = ErrorKind::from(reply);
    let is_std = g(2) == 1 && g(1) < 4;
    let bad = match (&kind, g(1), is_std) {
        (ErrorKind::InterfaceNotFound(p), 0, true) | (ErrorKind::InvalidParameter(p), 1, true) | (ErrorKind::MethodNotFound(p), 2, true)
        | (ErrorKind::MethodNotImplemented(p), 3, true) => {
            if p == want_payload {
                None
            } else {
                Some(format!("carries {:?}, expected {:?}", p, want_payload))
            }
        }
        (ErrorKind::VarlinkErrorReply(r), _, false) => {
            if r.parameters == parameters {
                None
            } else {
                Some("the reply carried is not the reply received".to_string())
            }
        }
        (k, _, _) => Some(format!("mapped to {:?}", k).chars().take(120).collect()),
    };
    Ok(Outcome { reproduced: bad.is_some(), role: if is_std { "standard-error".into() } else { "other-error".into() }, scenario, detail: bad.unwrap_or_default() })
}

// C05 client half (c05_next / c05_more / c05_call): the scenario space is small, so the native side walks it instead of
// decoding the solver's assignment: a `more` call against k continues replies and a final reply (result, error, result
// with continues spelled false), then a plain call on the same connection.
pub fn client_iter(_vals: &[u8]) -> Outcome {
    // oneway() sends and reads nothing; upgrade() / call() read exactly their own reply
    {
        let stream = b"{\"parameters\":{\"n\":1}}\0{\"parameters\":{\"n\":2}}\0".to_vec();
        let (conn, w) = connection(stream, false);
        let bad = |detail: String| Outcome { reproduced: true, role: "call-modes".into(),
                                             scenario: "oneway(), then upgrade(), then call() on one connection with two replies waiting".into(), detail };
        let mut c0: Call = MethodCall::new(conn.clone(), "a.b.O", json!({}));
        let r = std::panic::catch_unwind(std::panic::AssertUnwindSafe(|| c0.oneway()));
        match r {
            Ok(Ok(())) => {}
            Ok(Err(e)) => return bad(format!("oneway() failed on a free connection: {}", kind_name(&e))),
            Err(_) => return bad("oneway() panicked".into()),
        }
        let sent = messages(&w);
        if sent.len() != 1 || sent[0].get("oneway") != Some(&json!(true)) || sent[0].get("more").is_some() || sent[0].get("upgrade").is_some() {
            return bad(format!("oneway() wrote {:?}", sent));
        }
        if !free(&conn) {
            return bad("the connection is taken after oneway()".into());
        }
        let mut c1: Call = MethodCall::new(conn.clone(), "a.b.U", json!({}));
        match c1.upgrade() {
            Ok(v) if v == json!({"n": 1}) => {}
            other => return bad(format!("upgrade() after oneway() gave {:?} (a reply was consumed by oneway, or none was read)", other.map_err(|e| kind_name(&e)))),
        }
        let sent = messages(&w);
        if sent.len() != 2 || sent[1].get("upgrade") != Some(&json!(true)) || sent[1].get("oneway").is_some() || sent[1].get("more").is_some() {
            return bad(format!("upgrade() wrote {:?}", sent.last()));
        }
        let mut c2: Call = MethodCall::new(conn.clone(), "a.b.C", json!({}));
        match c2.call() {
            Ok(v) if v == json!({"n": 2}) => {}
            other => return bad(format!("call() gave {:?}", other.map_err(|e| kind_name(&e)))),
        }
        let sent = messages(&w);
        if sent.len() != 3 || sent[2].get("upgrade").is_some() || sent[2].get("oneway").is_some() || sent[2].get("more").is_some() {
            return bad(format!("call() wrote {:?}", sent.last()));
        }
    }
    for k in 0..4usize {
        for fin in 0..3u8 {
            let mut stream = Vec::new();
            for i in 0..k {
                stream.extend_from_slice(format!("{{\"continues\":true,\"parameters\":{{\"i\":{}}}}}\0", i).as_bytes());
            }
            stream.extend_from_slice(match fin {
                0 => &b"{\"parameters\":{\"i\":99}}\0"[..],
                1 => &b"{\"error\":\"a.b.Failed\",\"parameters\":{}}\0"[..],
                _ => &b"{\"continues\":false,\"parameters\":{\"i\":99}}\0"[..],
            });
            stream.extend_from_slice(b"{\"parameters\":{\"next\":true}}\0");
            let scenario = format!("more() against {} continues replies and a final {}, then call()", k,
                                   ["result", "error", "result with continues:false"][fin as usize]);
            let bad = |detail: String| Outcome { reproduced: true, role: "more-iteration".into(), scenario: scenario.clone(), detail };
            let (conn, w) = connection(stream, false);
            let mut call: Call = MethodCall::new(conn.clone(), "a.b.M", json!({}));
            let run = std::panic::catch_unwind(std::panic::AssertUnwindSafe(|| -> Result<(), String> {
                let it = call.more().map_err(|e| format!("more() failed on a free connection: {}", e))?;
                let sent = messages(&w);
                if sent.len() != 1 || sent[0].get("more") != Some(&json!(true)) || sent[0].get("oneway").is_some() {
                    return Err(format!("more() wrote {:?}", sent));
                }
                let mut items = Vec::new();
                for _ in 0..(k + 3) {
                    match it.next() {
                        None => break,
                        Some(x) => items.push(x),
                    }
                }
                if items.len() != k + 1 {
                    return Err(format!("{} items yielded, expected {}", items.len(), k + 1));
                }
                for (i, x) in items.iter().enumerate() {
                    let want_err = i == k && fin == 1;
                    match x {
                        Ok(v) if !want_err => {
                            let want = if i < k { json!({"i": i}) } else { json!({"i": 99}) };
                            if *v != want {
                                return Err(format!("item {} is {} instead of {}", i, v, want));
                            }
                        }
                        Err(_) if want_err => {}
                        other => return Err(format!("item {} is {:?}", i, other.as_ref().map_err(|e| kind_name(e)))),
                    }
                }
                if it.next().is_some() {
                    return Err("an item after the end of the iteration".into());
                }
                Ok(())
            }));
            match run {
                Err(_) => return bad("the iteration panicked".into()),
                Ok(Err(d)) => return bad(d),
                Ok(Ok(())) => {}
            }
            if !free(&conn) {
                return bad("the connection is still taken after the final reply".into());
            }
            let mut c2: Call = MethodCall::new(conn.clone(), "a.b.N", json!({}));
            match c2.call() {
                Ok(v) if v == json!({"next": true}) => {}
                other => return bad(format!("the following call() gave {:?}", other.map_err(|e| kind_name(&e)))),
            }
            if messages(&w).len() != 2 {
                return bad(format!("{} requests written for two calls", messages(&w).len()));
            }
        }
    }
    Outcome { reproduced: false, role: String::new(), scenario: "more() iterations of 0..3 continues replies x three final replies, each followed by call()".into(),
              detail: "every iteration yielded each reply once, ended, and left the connection free".into() }
}
