// C16 native replay: the real process environment, the public Listener::new.
use crate::shared::c16::*;
use crate::shared::src_trait::Src;
use crate::Outcome;

pub fn activation<S: Src>(s: &mut S) -> Outcome {
    let a = draw_activation(s);
    let want = expected_fd(&a);
    let me = std::process::id();
    for k in ["LISTEN_FDS", "LISTEN_PID", "LISTEN_FDNAMES"] {
        std::env::remove_var(k);
    }
    if let Some(v) = env_string(&a.fds) {
        std::env::set_var("LISTEN_FDS", v);
    }
    if let Some(v) = env_string(&a.pid) {
        // the harness fixes "this process" at pid 77
        let v = if ref_parse(&a.pid) == Some(OWN_PID as usize) { v.replace("77", &me.to_string()) } else { v };
        std::env::set_var("LISTEN_PID", v);
    }
    if a.names_present {
        std::env::set_var("LISTEN_FDNAMES", FDNAMES[a.names as usize]);
    }
    let addr = format!("unix:@verif_c16_{}", me);
    let got = match varlink::Listener::new(&addr) {
        Ok(l) => {
            let r = match &l {
                varlink::Listener::UNIX(Some(_), true) | varlink::Listener::TCP(Some(_), true) => l.as_raw_fd().map(|f| f as usize),
                _ => None,
            };
            std::mem::forget(l);
            r
        }
        Err(_) => None,
    };
    Outcome {
        reproduced: got != want,
        role: if want.is_some() { "activation-expected".into() } else { "activation-not-expected".into() },
        scenario: format!(
            "LISTEN_FDS={:?} LISTEN_PID={:?} (77 = own pid) LISTEN_FDNAMES={:?}",
            env_string(&a.fds),
            env_string(&a.pid),
            if a.names_present { Some(FDNAMES[a.names as usize]) } else { None }
        ),
        detail: format!("server uses inherited descriptor {:?}, expected {:?}", got, want),
    }
}

/// C16 address schemes, natively: invalid-address rejection on both sides, and - where the
/// kernel lets us observe it - that the socket name is the address part up to the first ';'.
pub fn scheme<S: Src>(s: &mut S) -> Outcome {
    for k in ["LISTEN_FDS", "LISTEN_PID", "LISTEN_FDNAMES"] {
        std::env::remove_var(k);
    }
    let a = draw_addr(s);
    let text = String::from_utf8_lossy(&a.b).to_string();
    let (sch, from, to) = classify(&a);
    let name = String::from_utf8_lossy(&a.b[from..to]).to_string();
    let dir = std::env::temp_dir().join(format!("verif_c16_{}", std::process::id()));
    let _ = std::fs::remove_dir_all(&dir);
    let _ = std::fs::create_dir_all(&dir);
    let _ = std::env::set_current_dir(&dir);
    let srv = varlink::Listener::new(&text);
    let cli = varlink::varlink_connect(&text);
    let inv = |k: &varlink::ErrorKind| matches!(k, varlink::ErrorKind::InvalidAddress);
    let srv_invalid = srv.as_ref().err().map(|e| inv(e.kind())).unwrap_or(false);
    let cli_invalid = cli.as_ref().err().map(|e| inv(e.kind())).unwrap_or(false);
    let mut bad = None;
    if srv_invalid != (sch == SCHEME_NONE) || cli_invalid != (sch == SCHEME_NONE) {
        bad = Some(format!("invalid-address: server {}, client {}, expected {}", srv_invalid, cli_invalid, sch == SCHEME_NONE));
    } else if sch == SCHEME_UNIX && srv.is_ok() {
        if !name.is_empty() && !name.contains('/') && !dir.join(&name).exists() {
            bad = Some(format!("server did not bind the path {:?}", name));
        } else if cli.is_err() {
            bad = Some("client does not reach the socket the server bound for the same address".to_string());
        }
    } else if sch == SCHEME_ABSTRACT && srv.is_ok() {
        let table = std::fs::read_to_string("/proc/net/unix").unwrap_or_default();
        if !table.lines().any(|l| l.ends_with(&format!("@{}", name))) {
            bad = Some(format!("server did not bind the abstract name {:?}", name));
        } else if cli.is_err() {
            bad = Some("client does not reach the abstract socket the server bound for the same address".to_string());
        }
    }
    drop(cli);
    drop(srv);
    let _ = std::env::set_current_dir("/");
    let _ = std::fs::remove_dir_all(&dir);
    Outcome {
        reproduced: bad.is_some(),
        role: match sch {
            SCHEME_NONE => "other-scheme".into(),
            SCHEME_TCP => "tcp".into(),
            SCHEME_ABSTRACT => "unix-abstract".into(),
            _ => "unix-path".into(),
        },
        scenario: format!("address {:?}", text),
        detail: bad.unwrap_or_default(),
    }
}
