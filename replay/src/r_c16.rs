// C16 native replay: the real process environment, the public Listener::new.
use crate::shared::c16::*;
use crate::shared::src_trait::Src;
use crate::Outcome;

pub fn activation<S: Src>(s: &mut S) -> Outcome {
    let a = draw_activation(s);
    let want = expected_fd(&a);
    let me = std::process::id();
    for k in ["LISTEN_FDS", "LISTEN_PID", "LISTEN_FDNAMES"] {
        std::env::remove_var(k);
    }
    if let Some(v) = env_string(&a.fds) {
        std::env::set_var("LISTEN_FDS", v);
    }
    if let Some(v) = env_string(&a.pid) {
        // the harness fixes "this process" at pid 77
        let v = if ref_parse(&a.pid) == Some(OWN_PID as usize) { v.replace("77", &me.to_string()) } else { v };
        std::env::set_var("LISTEN_PID", v);
    }
    if a.names_present {
        std::env::set_var("LISTEN_FDNAMES", FDNAMES[a.names as usize]);
    }
    let addr = format!("unix:@verif_c16_{}", me);
    let got = match varlink::Listener::new(&addr) {
        Ok(l) => {
            let r = match &l {
                varlink::Listener::UNIX(Some(_), true) | varlink::Listener::TCP(Some(_), true) => l.as_raw_fd().map(|f| f as usize),
                _ => None,
            };
            std::mem::forget(l);
            r
        }
        Err(_) => None,
    };
    Outcome {
        reproduced: got != want,
        role: if want.is_some() { "activation-expected".into() } else { "activation-not-expected".into() },
        scenario: format!(
            "LISTEN_FDS={:?} LISTEN_PID={:?} (77 = own pid) LISTEN_FDNAMES={:?}",
            env_string(&a.fds),
            env_string(&a.pid),
            if a.names_present { Some(FDNAMES[a.names as usize]) } else { None }
        ),
        detail: format!("server uses inherited descriptor {:?}, expected {:?}", got, want),
    }
}
