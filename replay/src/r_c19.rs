// C19 native side: the real varlink-certification server (binary built from the same source copy, path in
// VERIF_CERT_BIN) on an abstract unix socket, spoken to with raw JSON.
//   vals = [0, cid_ok, more, oneway, upgrade, method_ok, parameters, parse_ok, args_equal]   (step instances)
//          tri-state flags: 0 absent, 1 false, 2 true
//   vals = [1, known, in_order]                                                              (client table)
// The canonical parameters of a step are the reply parameters of the step before it plus the client id
// (that is how the certification client is written), so the sequence is chained generically.
use crate::Outcome;
use serde_json::{json, Map, Value};
use std::io::{Read, Write};
use std::os::unix::net::UnixStream;
use std::process::{Child, Command};
use std::time::Duration;

const STEPS: [&str; 13] = [
    "Start", "Test01", "Test02", "Test03", "Test04", "Test05", "Test06", "Test07", "Test08", "Test09", "Test10", "Test11", "End",
];

struct Server {
    child: Child,
    addr: String,
}

impl Drop for Server {
    fn drop(&mut self) {
        let _ = self.child.kill();
        let _ = self.child.wait();
    }
}

fn start() -> Result<Server, String> {
    let bin = std::env::var("VERIF_CERT_BIN").map_err(|_| "VERIF_CERT_BIN not set".to_string())?;
    let addr = format!("unix:@vreplay-c19-{}", std::process::id());
    let child = Command::new(bin)
        .arg(format!("--varlink={}", addr))
        .arg("--timeout=20")
        .stdout(std::process::Stdio::null())
        .stderr(std::process::Stdio::null())
        .spawn()
        .map_err(|e| format!("spawn: {}", e))?;
    Ok(Server { child, addr })
}

fn connect(addr: &str) -> Result<UnixStream, String> {
    use std::os::linux::net::SocketAddrExt;
    let name = addr.trim_start_matches("unix:@");
    for _ in 0..100 {
        let a = std::os::unix::net::SocketAddr::from_abstract_name(name.as_bytes()).map_err(|e| e.to_string())?;
        if let Ok(s) = UnixStream::connect_addr(&a) {
            let _ = s.set_read_timeout(Some(Duration::from_millis(1500)));
            return Ok(s);
        }
        std::thread::sleep(Duration::from_millis(50));
    }
    Err("server did not come up".into())
}

fn send(s: &mut UnixStream, v: &Value) -> Result<(), String> {
    let mut b = serde_json::to_vec(v).map_err(|e| e.to_string())?;
    b.push(0);
    s.write_all(&b).map_err(|e| e.to_string())
}

/// one NUL-terminated reply, None on timeout / EOF
fn recv(s: &mut UnixStream) -> Option<Value> {
    let mut buf = Vec::new();
    let mut one = [0u8; 1];
    loop {
        match s.read(&mut one) {
            Ok(1) => {
                if one[0] == 0 {
                    break;
                }
                buf.push(one[0]);
            }
            _ => return None,
        }
    }
    serde_json::from_slice(&buf).ok()
}

fn params_of(reply: &Value) -> Map<String, Value> {
    reply.get("parameters").and_then(|p| p.as_object()).cloned().unwrap_or_default()
}

/// runs the canonical sequence up to (not including) step `upto`; returns (client id, canonical parameters of `upto`)
fn advance(s: &mut UnixStream, upto: usize) -> Result<(String, Map<String, Value>), String> {
    send(s, &json!({"method": "org.varlink.certification.Start"}))?;
    let r = recv(s).ok_or("no reply to Start")?;
    let cid = params_of(&r).get("client_id").and_then(|c| c.as_str()).ok_or("no client id")?.to_string();
    let mut next = Map::new();
    for i in 1..upto {
        let mut p = next.clone();
        p.insert("client_id".into(), json!(cid));
        let m = format!("org.varlink.certification.{}", STEPS[i]);
        next = Map::new();
        if STEPS[i] == "Test10" {
            send(s, &json!({"method": m, "more": true, "parameters": p}))?;
            let mut strings = Vec::new();
            loop {
                let r = recv(s).ok_or("no reply in Test10")?;
                if r.get("error").is_some() {
                    return Err(format!("canonical Test10 refused: {}", r));
                }
                if let Some(x) = params_of(&r).get("string") {
                    strings.push(x.clone());
                }
                if r.get("continues").and_then(|c| c.as_bool()) != Some(true) {
                    break;
                }
            }
            next.insert("last_more_replies".into(), Value::Array(strings));
        } else if STEPS[i] == "Test11" {
            send(s, &json!({"method": m, "oneway": true, "parameters": p}))?;
        } else {
            send(s, &json!({"method": m, "parameters": p}))?;
            let r = recv(s).ok_or(format!("no reply to canonical {}", STEPS[i]))?;
            if r.get("error").is_some() {
                return Err(format!("canonical {} refused: {}", STEPS[i], r));
            }
            next = params_of(&r);
        }
    }
    Ok((cid, next))
}

fn deviate(v: &Value) -> Value {
    match v {
        Value::Bool(b) => json!(!b),
        Value::Number(n) => {
            if let Some(i) = n.as_i64() {
                json!(i + 1)
            } else {
                json!(n.as_f64().unwrap_or(0.0) + 1.5)
            }
        }
        Value::String(s) => json!(format!("{}x", s)),
        Value::Array(a) => {
            let mut a = a.clone();
            a.push(json!("extra"));
            Value::Array(a)
        }
        Value::Object(o) => {
            let mut o = o.clone();
            let k = o.keys().next().cloned();
            match k {
                Some(k) => {
                    let nv = deviate(&o[&k]);
                    o.insert(k, nv);
                }
                None => {
                    o.insert("extra".into(), json!({}));
                }
            }
            Value::Object(o)
        }
        Value::Null => json!(1),
    }
}

fn step_index(harness: &str) -> Option<usize> {
    let n = harness.trim_start_matches("c19_step_");
    STEPS.iter().position(|s| s.to_lowercase() == n)
}

pub fn run(harness: &str, vals: &[u8]) -> Outcome {
    match run_inner(harness, vals) {
        Ok(o) => o,
        Err(e) => Outcome { reproduced: false, role: String::new(), scenario: String::new(), detail: format!("native replay not possible: {}", e) },
    }
}

fn run_inner(harness: &str, vals: &[u8]) -> Result<Outcome, String> {
    let srv = start()?;
    let mut s = connect(&srv.addr)?;
    let g = |i: usize| *vals.get(i).unwrap_or(&0);
    if g(0) == 1 {
        // client table: a known client calling out of order / an unknown client must be refused
        let (known, in_order) = (g(1) == 1, g(2) == 1);
        let (cid, _) = advance(&mut s, 1)?;
        let (m, id) = if !known { ("Test01", "0000".to_string()) } else if !in_order { ("Test02", cid) } else { ("Test01", cid) };
        let mut p = Map::new();
        p.insert("client_id".into(), json!(id));
        if m == "Test02" {
            p.insert("bool".into(), json!(true));
        }
        let req = json!({"method": format!("org.varlink.certification.{}", m), "parameters": p});
        send(&mut s, &req)?;
        let r = recv(&mut s);
        let success = r.as_ref().map(|r| r.get("error").is_none()).unwrap_or(false);
        let should = known && in_order;
        return Ok(Outcome {
            reproduced: success != should,
            role: if should { "in-order-step-refused".into() } else { "out-of-order-or-unknown-client-admitted".into() },
            scenario: format!("after Start: {}", req),
            detail: format!("reply {:?}", r.map(|r| r.to_string())),
        });
    }
    if g(0) == 4 {
        // a refused call must leave the client where it was: an out-of-order step is refused, then the step after it
        // (still out of order) must be refused too, and the step that was due must still be admitted
        let (cid, _) = advance(&mut s, 1)?;
        let r3 = json!({"method": "org.varlink.certification.Test03", "parameters": {"client_id": cid, "int": 1}});
        send(&mut s, &r3)?;
        let a = recv(&mut s);
        let r4 = json!({"method": "org.varlink.certification.Test04", "parameters": {"client_id": cid, "float": 1.0}});
        send(&mut s, &r4)?;
        let b = recv(&mut s);
        let refused_first = a.as_ref().map(|r| r.get("error").is_some()).unwrap_or(false);
        let admitted_second = b.as_ref().map(|r| r.get("error").is_none()).unwrap_or(false);
        let r1 = json!({"method": "org.varlink.certification.Test01", "parameters": {"client_id": cid}});
        send(&mut s, &r1)?;
        let c = recv(&mut s);
        let due_refused = c.as_ref().map(|r| r.get("error").is_some()).unwrap_or(true);
        return Ok(Outcome {
            reproduced: refused_first && (admitted_second || due_refused),
            role: "refused-call-moves-the-client".into(),
            scenario: format!("after Start: {} ; {} ; {}", r3, r4, r1),
            detail: format!("replies {:?} ; {:?} ; {:?}", a.map(|r| r.to_string()), b.map(|r| r.to_string()), c.map(|r| r.to_string())),
        });
    }
    let idx = step_index(harness).ok_or("unknown step")?;
    if g(0) == 3 {
        // the step checks a wrong place in the sequence: the canonical run breaks at this step or at the next one
        let upto = (idx + 2).min(STEPS.len());
        let r = advance(&mut s, upto);
        let mut broke = r.is_err();
        let mut detail = r.as_ref().err().cloned().unwrap_or_default();
        if let (Ok((cid, canon)), true) = (&r, upto == STEPS.len()) {
            // the sequence ran up to End exclusive: End itself must be admitted
            let mut p = canon.clone();
            p.insert("client_id".into(), json!(cid));
            send(&mut s, &json!({"method": "org.varlink.certification.End", "parameters": p}))?;
            let e = recv(&mut s);
            broke = e.as_ref().map(|r| r.get("error").is_some()).unwrap_or(true);
            detail = format!("End: {:?}", e.map(|r| r.to_string()));
        }
        return Ok(Outcome {
            reproduced: broke,
            role: "canonical-sequence-breaks".into(),
            scenario: format!("the canonical sequence Start .. {}", STEPS[upto - 1]),
            detail,
        });
    }
    let (cid_ok, more, oneway, upgrade) = (g(1) == 1, g(2), g(3), g(4));
    let (has_params, parse_ok, args_equal) = (g(6) == 1, g(7) == 1, g(8) == 1);
    let mode_flag = match STEPS[idx] {
        "Test10" => "more",
        "Test11" => "oneway",
        _ => "",
    };
    let flags_ok = (more == 2) == (mode_flag == "more") && (oneway == 2) == (mode_flag == "oneway") && upgrade != 2;
    let canonical = cid_ok && flags_ok && has_params && parse_ok && args_equal;
    let (cid, canon) = advance(&mut s, idx)?;
    let mut p = canon.clone();
    p.insert("client_id".into(), json!(if cid_ok { cid.clone() } else { "0000".to_string() }));
    if !(parse_ok && args_equal) {
        // vals[9]: which of the step's parameters deviates (0 = the first)
        let k = p.keys().filter(|k| k.as_str() != "client_id").nth(g(9) as usize).cloned();
        match k {
            Some(k) => {
                let nv = deviate(&p[&k]);
                p.insert(k, nv);
            }
            None => return Err("this step has no parameter besides the client id to deviate in".into()),
        }
    }
    let mut req = Map::new();
    req.insert("method".into(), json!(format!("org.varlink.certification.{}", STEPS[idx])));
    for (name, v) in [("more", more), ("oneway", oneway), ("upgrade", upgrade)] {
        if v != 0 {
            req.insert(name.into(), json!(v == 2));
        }
    }
    if has_params {
        req.insert("parameters".into(), Value::Object(p));
    }
    let req = Value::Object(req);
    send(&mut s, &req)?;
    let r = recv(&mut s);
    let (reproduced, detail) = if oneway == 2 {
        // nothing can come back; a canonical oneway step shows in the next step being admitted
        if canonical {
            let mut q = Map::new();
            q.insert("client_id".into(), json!(cid));
            send(&mut s, &json!({"method": format!("org.varlink.certification.{}", STEPS[(idx + 1).min(12)]), "parameters": q}))?;
            let r2 = recv(&mut s);
            let ok = r2.as_ref().map(|r| r.get("error").is_none()).unwrap_or(false);
            (!ok, format!("follow-up step: {:?}", r2.map(|r| r.to_string())))
        } else {
            (r.is_some() && r.as_ref().unwrap().get("error").is_none(), format!("reply to a oneway call: {:?}", r.map(|r| r.to_string())))
        }
    } else {
        let success = r.as_ref().map(|r| r.get("error").is_none()).unwrap_or(false);
        (success != canonical, format!("reply {:?}", r.map(|r| r.to_string())))
    };
    Ok(Outcome {
        reproduced,
        role: if canonical { "canonical-request-refused".into() } else { "deviating-request-passed".into() },
        scenario: format!("canonical sequence up to {}, then {}", STEPS[idx - 1], req),
        detail,
    })
}
