"""Reference grammar for C11, read *declaratively* (enc.Decl): the set of texts that are varlink
interface definitions.  It is fixed here, in /verif, and is never derived from /repo.

Sources:
* lexical rules - the varlink interface-definition documentation (varlink.org, "Interface
  Definition"):
      interface_name = [A-Za-z]([-]*[A-Za-z0-9])*(\\.[A-Za-z0-9]([-]*[A-Za-z0-9])*)+
      name           = [A-Z][A-Za-z0-9]*
      field_name     = [A-Za-z]([_]?[A-Za-z0-9])*
  i.e. two or more dot-separated elements of letters, digits and hyphens, none of which starts or
  ends with a hyphen, the first starting with a letter (property C11's wording);
* type expressions - bool int float string object, type names, anonymous structs and enums,
  `[]T`, `[string]T`, `?T` with no `??`;
* members - `type N struct-or-enum`, `method N struct -> struct`, `error N struct`;
* layout (where blanks, comments and line ends may stand) - transcribed from the pinned grammar's
  token rules, restricted to ASCII: blank = space or tab; a comment runs from `#` to a line end and
  needs that line end; members are separated by a line end (optionally preceded by blanks) or a
  comment.  The property does not define layout beyond "comments and whitespace", so this part of
  the reference states what the pinned grammar does, as a context-free language."""


def lit(s):
    return ("lit", s.encode())


def cls(spec):
    """spec like "A-Za-z0-9_" """
    out = []
    i = 0
    while i < len(spec):
        if i + 2 < len(spec) and spec[i + 1] == "-":
            out.append((ord(spec[i]), ord(spec[i + 2])))
            i += 3
        else:
            out.append((ord(spec[i]), ord(spec[i])))
            i += 1
    return ("cls", tuple(out))


def seq(*a):
    return ("seq", list(a))


def alt(*a):
    return ("alt", list(a))


def star(e):
    return ("star", e)


def plus(e):
    return ("plus", e)


def opt(e):
    return ("opt", e)


def call(n):
    return ("call", n)


LETTER = cls("A-Za-z")
ALNUM = cls("A-Za-z0-9")
HY = ("cls", ((45, 45),))

RULES = {}
R = RULES

R["blank"] = ("cls", ((32, 32), (9, 9)))
R["eol_r"] = alt(lit("\r\n"), lit("\n"), lit("\r"))
R["comment"] = seq(lit("#"), star(("ncls", ((10, 10), (13, 13)))), call("eol_r"))
R["eol"] = alt(seq(star(call("blank")), call("eol_r")), call("comment"))
R["wce"] = alt(call("blank"), call("comment"), call("eol_r"))
R["_"] = star(call("wce"))

R["element_tail"] = star(seq(star(HY), ALNUM))
R["interface_name"] = seq(LETTER, call("element_tail"),
                          plus(seq(lit("."), ALNUM, call("element_tail"))))
R["name"] = seq(cls("A-Z"), star(ALNUM))
R["field_name"] = seq(LETTER, star(seq(opt(lit("_")), ALNUM)))

R["btype"] = alt(lit("bool"), lit("int"), lit("float"), lit("string"), lit("object"),
                 call("name"), call("struct"), call("enum"))
R["elem"] = alt(call("btype"), seq(lit("[]"), call("type")), seq(lit("[string]"), call("type")))
R["type"] = seq(opt(lit("?")), call("elem"))
# note `[]?int` is a type, `??int` is not: after `?` comes an element, never another `?`
R["field"] = seq(call("_"), call("field_name"), call("_"), lit(":"), call("_"), call("type"))
R["struct"] = seq(lit("("), call("_"), opt(seq(call("field"), star(seq(lit(","), call("field"))))),
                  call("_"), lit(")"))
R["enum"] = seq(lit("("), call("_"),
                opt(seq(call("field_name"), star(seq(lit(","), call("_"), call("field_name"))))),
                call("_"), lit(")"))

R["typedef"] = seq(call("_"), lit("type"), plus(call("wce")), call("name"), call("_"),
                   alt(call("struct"), call("enum")))
R["error"] = seq(call("_"), lit("error"), plus(call("wce")), call("name"), call("_"), call("struct"))
R["method"] = seq(call("_"), lit("method"), plus(call("wce")), call("name"), call("_"), call("struct"),
                  call("_"), lit("->"), call("_"), call("struct"))
R["member"] = alt(call("method"), call("typedef"), call("error"))
R["interface"] = seq(call("_"), lit("interface"), plus(call("wce")), call("interface_name"), call("eol"),
                     call("member"), star(seq(call("eol"), call("member"))), call("_"))

START = "interface"
