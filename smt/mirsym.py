"""A small symbolic executor for rustc MIR text (-Zunpretty=mir), written for
varlink_parser::IDL::from_token (C11: duplicate detection and order of appearance).

It interprets the MIR of *one* function path by path: locals hold symbolic values (z3 terms for
names / discriminants, Python structures for aggregates, references as aliases of places),
a switchInt on a symbolic value forks (infeasible arms are pruned by the solver), and every call the
function makes is replaced by a model with the callee's documented contract (the stubs of this
encoding, listed in the evidence).  Anything the reader or the models do not know raises
Unsupported: the check is then inconclusive, never a pass."""
import copy
import re
import z3


class Unsupported(Exception):
    pass


# ---------------------------------------------------------------- values

class Struct:
    """aggregate with positional fields (struct, tuple)"""

    def __init__(self, fields=None, tag=None, names=None):
        self.f = dict(fields or {})
        self.tag = tag
        self.names = names

    def field(self, name):
        return self.f[self.names.index(name)]


class Enum:
    """discr: int or z3 Int; payloads: variant name -> Struct of the variant's fields"""

    def __init__(self, discr, payloads):
        self.discr = discr
        self.payloads = payloads


VARIANT_DISCR = {"None": 0, "Some": 1, "Ok": 0, "Err": 1, "Continue": 0, "Break": 1}


def some(v):
    return Enum(1, {"Some": Struct({0: v})})


def none():
    return Enum(0, {})


class Ref:
    def __init__(self, local, proj):
        self.local = local
        self.proj = tuple(proj)


class Opaque:
    def __init__(self, what=""):
        self.what = what

    def __repr__(self):
        return "Opaque(%s)" % self.what


class VecV:
    def __init__(self, items=None):
        self.items = list(items or [])


class MapV:
    def __init__(self):
        self.entries = []           # [key, value] lists


class SetV:
    def __init__(self):
        self.items = []


class IterV:
    def __init__(self, items):
        self.items = list(items)
        self.pos = 0


class FmtArg:
    def __init__(self, value):
        self.value = value


class FmtString:
    def __init__(self, template, args):
        self.template = template
        self.args = args


class Fork:
    """result of a model whose outcome depends on symbolic facts: [(condition, effect(path) -> value)]"""

    def __init__(self, alts):
        self.alts = alts


# ---------------------------------------------------------------- MIR reader

def split_top(s, sep=","):
    out, depth, cur = [], 0, []
    i = 0
    in_str = False
    while i < len(s):
        c = s[i]
        if in_str:
            cur.append(c)
            if c == "\\" and i + 1 < len(s):
                cur.append(s[i + 1]); i += 1
            elif c == '"':
                in_str = False
        elif c == '"':
            in_str = True; cur.append(c)
        elif c in "([{":
            depth += 1; cur.append(c)
        elif c in ")]}":
            depth -= 1; cur.append(c)
        elif c == "<" and i > 0 and (s[i - 1].isalnum() or s[i - 1] in ":_" or s[i - 1] == "<"):
            depth += 1; cur.append(c)
        elif c == ">" and depth > 0 and i > 0 and s[i - 1] != "-" and s[i - 1] != "=":
            depth -= 1; cur.append(c)
        elif c == sep and depth == 0:
            out.append("".join(cur).strip()); cur = []
        else:
            cur.append(c)
        i += 1
    if "".join(cur).strip():
        out.append("".join(cur).strip())
    return out


def find_function(mir_text, name_re, params_re=None):
    m = None
    for m in re.finditer(r"^fn [^\n]*%s\((.*?)\) -> [^\n]* \{$" % name_re, mir_text, re.M):
        if params_re is None or re.search(params_re, m.group(1)):
            break
    else:
        m = None
    if not m:
        raise Unsupported("function %s not found in the MIR dump" % name_re)
    start = m.start()
    end = mir_text.index("\n}\n", start)
    body = mir_text[start:end]
    params = [p.split(":")[0].strip() for p in split_top(m.group(1))]
    blocks = {}
    for bm in re.finditer(r"^    (bb\d+)(?: \(cleanup\))?: \{\n(.*?)^    \}", body, re.M | re.S):
        lines = [l.strip() for l in bm.group(2).split("\n") if l.strip()]
        blocks[bm.group(1)] = lines
    if "bb0" not in blocks:
        raise Unsupported("no basic blocks")
    return params, blocks


def find_promoted(mir_text, fn_tail_re):
    """string constants behind `const <..>::f::promoted[k]` (type &&str / &str)"""
    out = {}
    for m in re.finditer(r"^const [^\n]*%s::promoted\[(\d+)\]: [^\n]* = \{\n(.*?)^\}" % fn_tail_re, mir_text, re.M | re.S):
        c = re.search(r'const "((?:[^"\\]|\\.)*)"', m.group(2))
        if c:
            out[int(m.group(1))] = c.group(1)
            continue
        c = re.search(r"const (-?\d+)_[ui]\d+;", m.group(2))
        if c:
            out[int(m.group(1))] = int(c.group(1))
    return out


PLACE_LOCAL = re.compile(r"_\d+$")


def parse_place(s):
    """-> (local, proj); proj items: int field | ('as', Variant) | 'deref'"""
    s = s.strip()
    if PLACE_LOCAL.match(s):
        return s, ()
    if s.startswith("(") and s.endswith(")"):
        inner = s[1:-1]
        if inner.startswith("*"):
            l, p = parse_place(inner[1:])
            return l, p + ("deref",)
        if inner.startswith("("):
            depth = 0
            i = 0
            for i, c in enumerate(inner):
                if c == "(":
                    depth += 1
                elif c == ")":
                    depth -= 1
                    if depth == 0:
                        break
            base, rest = inner[:i + 1], inner[i + 1:]
        else:
            m = re.match(r"_\d+", inner)
            if not m:
                raise Unsupported("place %r" % s)
            base, rest = m.group(0), inner[m.end():]
        l, p = parse_place(base)
        m = re.match(r"\.(\d+): ", rest)
        if m:
            return l, p + (int(m.group(1)),)
        m = re.match(r" as (\w+)$", rest)
        if m:
            return l, p + (("as", m.group(1)),)
    raise Unsupported("place %r" % s)


# ---------------------------------------------------------------- executor

class Path:
    def __init__(self):
        self.pc = []
        self.locals = {}

    def clone(self):
        p = Path()
        p.pc = list(self.pc)
        p.locals = copy.deepcopy(self.locals)
        return p


IGNORED = ("StorageLive", "StorageDead", "nop", "FakeRead", "PlaceMention", "Retag", "AscribeUserType",
           "Coverage", "ConstEvalCounter", "//", "Deinit", "BackwardIncompatibleDropHint")


class Exec:
    def __init__(self, blocks, models, solver, base, max_steps=200000):
        self.blocks = blocks
        self.models = models
        self.solver = solver
        self.base = base
        self.max_steps = max_steps
        self.finished = []
        self.queries = 0
        self.models_used = set()
        self.promoted = None

    def feasible(self, pc, cond):
        if cond is True:
            return True
        if cond is False:
            return False
        self.solver.push()
        self.solver.add(*self.base)
        self.solver.add(*pc)
        self.solver.add(cond)
        self.queries += 1
        r = self.solver.check()
        self.solver.pop()
        if r == z3.unknown:
            raise Unsupported("solver gave no answer on a branch")
        return r == z3.sat

    # ---- places
    def _get(self, path, local, proj):
        if local not in path.locals:
            path.locals[local] = None
        cur = path.locals[local]
        for k, p in enumerate(proj):
            if p == "deref":
                if isinstance(cur, Ref):
                    cur = self._get(path, cur.local, cur.proj)
                elif cur is None:
                    raise Unsupported("deref of an unset place")
                # anything else is a constant / by-value stand-in for the referent
            elif isinstance(p, tuple):
                if not isinstance(cur, Enum) or p[1] not in cur.payloads:
                    raise Unsupported("downcast to %s of %r" % (p[1], cur))
                cur = cur.payloads[p[1]]
            else:
                if not isinstance(cur, Struct):
                    raise Unsupported("field %r of %r" % (p, cur))
                cur = cur.f.get(p)
        return cur

    def read(self, path, local, proj):
        return self._get(path, local, proj)

    def write(self, path, local, proj, val):
        if not proj:
            path.locals[local] = val
            return
        parent = self._get(path, local, proj[:-1])
        last = proj[-1]
        if last == "deref":
            if not isinstance(parent, Ref):
                raise Unsupported("store through %r" % (parent,))
            self.write(path, parent.local, parent.proj, val)
        elif isinstance(last, tuple):
            raise Unsupported("store to a downcast")
        else:
            if not isinstance(parent, Struct):
                raise Unsupported("store to field of %r" % (parent,))
            parent.f[last] = val

    def load(self, path, ref):
        if not isinstance(ref, Ref):
            return ref      # a constant behind a promoted reference, or a model's by-value stand-in
        return self._get(path, ref.local, ref.proj)

    def make_ref(self, path, local, proj):
        if "deref" in proj:
            idx = len(proj) - 1 - proj[::-1].index("deref")
            base = self._get(path, local, proj[:idx])
            if not isinstance(base, Ref):
                if idx == len(proj) - 1 and base is not None:
                    return base     # `&*p` of a by-value stand-in for the pointee
                raise Unsupported("reborrow of %r" % (base,))
            return Ref(base.local, base.proj + tuple(proj[idx + 1:]))
        return Ref(local, proj)

    def operand(self, path, s):
        s = s.strip()
        for pre in ("no_retag copy ", "no_retag move ", "move ", "copy "):
            if s.startswith(pre):
                l, p = parse_place(s[len(pre):])
                return self.read(path, l, p)
        if s.startswith("const "):
            c = s[6:].strip()
            if c in ("true", "false"):
                return c == "true"
            m = re.match(r"(-?\d+)_\w+$", c)
            if m:
                return int(m.group(1))
            if c.startswith('"') and c.endswith('"'):
                return c[1:-1]
            m = re.search(r"::promoted\[(\d+)\]$", c)
            if m and self.promoted is not None:
                k = int(m.group(1))
                if k not in self.promoted:
                    raise Unsupported("promoted[%d]" % k)
                return self.promoted[k]
            return Opaque(c)
        raise Unsupported("operand %r" % s)

    def rvalue(self, path, s):
        s = s.strip()
        m = re.match(r"(move|copy) (.+?) as .+ \(\w+(\(.*\))?\)$", s)
        if m:
            return self.operand(path, m.group(1) + " " + m.group(2))
        if s.startswith(("move ", "copy ", "const ", "no_retag ")):
            return self.operand(path, s)
        m = re.match(r"&(?:mut |raw const |raw mut )?(.*)$", s)
        if m:
            l, p = parse_place(m.group(1))
            return self.make_ref(path, l, p)
        m = re.match(r"discriminant\((.*)\)$", s)
        if m:
            l, p = parse_place(m.group(1))
            v = self.read(path, l, p)
            if isinstance(v, Enum):
                return v.discr
            raise Unsupported("discriminant of %r" % (v,))
        if s.startswith("(") and s.endswith(")"):
            return Struct({i: self.operand(path, x) for i, x in enumerate(split_top(s[1:-1]))}, "tuple")
        if s.startswith("[") and s.endswith("]"):
            return VecV([self.operand(path, x) for x in split_top(s[1:-1])])
        if s.startswith("{closure@"):
            return Opaque("closure")
        m = re.match(r"(Add|Sub|Mul|Eq|Ne|Lt|Le|Gt|Ge|AddWithOverflow|SubWithOverflow|MulWithOverflow)\((.*)\)$", s)
        if m:
            a, b = [self.operand(path, x) for x in split_top(m.group(2))]
            op = m.group(1)
            if isinstance(a, bool) or isinstance(b, bool) or not all(isinstance(x, int) or z3.is_int(x) for x in (a, b)):
                raise Unsupported("binary op on %r, %r" % (a, b))
            if op in ("Add", "AddWithOverflow", "Sub", "SubWithOverflow", "Mul", "MulWithOverflow"):
                v = a + b if op.startswith("Add") else (a - b if op.startswith("Sub") else a * b)
                return Struct({0: v, 1: False}, "tuple") if op.endswith("Overflow") else v
            return {"Eq": a == b, "Ne": a != b, "Lt": a < b, "Le": a <= b, "Gt": a > b, "Ge": a >= b}[op]
        m = re.match(r"Not\((.*)\)$", s)
        if m:
            a = self.operand(path, m.group(1))
            return (not a) if isinstance(a, bool) else z3.Not(a)
        m = re.match(r"(move|copy) (.+?) as .+ \(.+\)$", s)
        if m:
            return self.operand(path, m.group(1) + " " + m.group(2))
        m = re.match(r"[\w:<>'&, \[\]\(\)+]*?::(None|Some|Ok|Err|Continue|Break)(?:\((.*)\))?$", s)
        if m and not s.startswith(("move ", "copy ")):
            var = m.group(1)
            args = split_top(m.group(2)) if m.group(2) else []
            return Enum(VARIANT_DISCR[var], {var: Struct({i: self.operand(path, a) for i, a in enumerate(args)})})
        m = re.match(r"([\w:<>' ,]+?)\s*\{(.*)\}$", s)
        if m and not re.match(r"[\w:<>'&, \[\]\(\)+]*?::?([A-Z]\w*)\(", s):
            fields, names = {}, []
            for i, fv in enumerate(split_top(m.group(2))):
                n, v = fv.split(":", 1)
                names.append(n.strip())
                fields[i] = self.operand(path, v)
            return Struct(fields, m.group(1).split("::")[0].strip(), names)
        m = re.match(r"(?:[\w<>'&, \[\]+]|::|\((?=[^)]*\)::))*?(?:::)?([A-Z]\w*)(?:::<[^()]*>)?(?:\((.*)\))?$", s)
        if m and not s.startswith(("move ", "copy ", "const ", "&")):
            # a tuple struct or an enum variant of a user type: kept by name
            var = m.group(1)
            args = split_top(m.group(2)) if m.group(2) else []
            return Enum(var, {var: Struct({i: self.operand(path, a) for i, a in enumerate(args)})})
        raise Unsupported("rvalue %r" % s)

    # ---- running
    def run(self, init_locals):
        p0 = Path()
        p0.locals.update(init_locals)
        work = [(p0, "bb0")]
        steps = 0
        while work:
            path, bb = work.pop()
            while bb is not None:
                steps += 1
                if steps > self.max_steps:
                    raise Unsupported("step budget exhausted")
                lines = self.blocks.get(bb)
                if lines is None:
                    raise Unsupported("block %s" % bb)
                for st in lines[:-1]:
                    self.statement(path, st)
                alts = self.terminator(path, lines[-1])
                # alts: [(target, condition | True, effect | None)]
                alive = [a for a in alts if self.feasible(path.pc, a[1])]
                if not alive:
                    break
                conts = []
                for k, (tgt, cond, effect) in enumerate(alive):
                    q = path if k == len(alive) - 1 else path.clone()
                    conts.append((q, tgt, cond, effect))
                for q, tgt, cond, effect in conts:
                    if cond is not True:
                        q.pc.append(cond)
                    if effect is not None:
                        effect(q)
                for q, tgt, cond, effect in conts[:-1]:
                    work.append((q, tgt))
                bb = conts[-1][1]
        return self.finished

    def statement(self, path, st):
        if st.startswith(IGNORED):
            return
        m = re.match(r"(.+?) = (.*);$", st)
        if not m:
            raise Unsupported("statement %r" % st)
        l, p = parse_place(m.group(1))
        self.write(path, l, p, self.rvalue(path, m.group(2)))

    def terminator(self, path, t):
        if t.startswith("goto -> "):
            return [(t[8:].rstrip(";"), True, None)]
        if t == "return;":
            self.finished.append((path, self.read(path, "_0", ())))
            return []
        if t in ("unreachable;", "resume;") or t.startswith("unwind "):
            return []
        m = re.match(r"drop\((.*?)\) -> \[return: (bb\d+)", t)
        if m:
            return [(m.group(2), True, None)]
        m = re.match(r"assert\(.*\) -> \[success: (bb\d+)", t)
        if m:
            return [(m.group(1), True, None)]   # overflow / bounds assertions: not the subject
        m = re.match(r"switchInt\((.*?)\) -> \[(.*)\];$", t)
        if m:
            v = self.operand(path, m.group(1))
            arms, other = [], None
            for a in split_top(m.group(2)):
                k, tgt = a.split(":")
                if k.strip() == "otherwise":
                    other = tgt.strip()
                else:
                    arms.append((int(k), tgt.strip()))
            if isinstance(v, bool):
                v = 1 if v else 0
            if isinstance(v, int):
                for k, tgt in arms:
                    if k == v:
                        return [(tgt, True, None)]
                return [(other, True, None)] if other else []
            if z3.is_bool(v):
                v = z3.If(v, z3.IntVal(1), z3.IntVal(0))
            if z3.is_int(v):
                out = [(tgt, v == k, None) for k, tgt in arms]
                if other:
                    out.append((other, z3.And(*[v != k for k, _ in arms]), None))
                return out
            raise Unsupported("switchInt on %r" % (v,))
        m = re.match(r"(.+?) = (.*) -> \[return: (bb\d+)(?:, unwind[^\]]*)?\];$", t)
        if m:
            dst, call, ret = m.groups()
            depth = 0
            i = len(call) - 1
            for i in range(len(call) - 1, -1, -1):
                if call[i] == ")":
                    depth += 1
                elif call[i] == "(":
                    depth -= 1
                    if depth == 0:
                        break
            fn, args = call[:i], split_top(call[i + 1:-1])
            l, p = parse_place(dst)
            for rx, model in self.models:
                if re.search(rx, fn):
                    self.models_used.add(rx)
                    res = model(self, path, [self.operand(path, a) for a in args])
                    if isinstance(res, Fork):
                        out = []
                        for cond, eff in res.alts:
                            def effect(q, eff=eff):
                                self.write(q, l, p, eff(q, [self.operand(q, a) for a in args]))
                            out.append((ret, cond, effect))
                        return out
                    self.write(path, l, p, res)
                    return [(ret, True, None)]
            raise Unsupported("call to `%s` has no model" % fn)
        raise Unsupported("terminator %r" % t)
