#!/usr/bin/env python3
"""C03, the populated interface table (what the Kani harnesses leave out, DESIGN B3).

  c03_table.py --repo DIR --instance c03_table_new_<n>|c03_table_call --out FILE

MIR of VarlinkService::new (n registered interfaces with z3 names) and of the private
VarlinkService::call (a table of two interfaces, the requested interface name a z3 value), executed
symbolically with contract models for HashMap / Vec / Box."""
import argparse
import json
import os
import re
import subprocess
import sys
import time

sys.path.insert(0, os.path.dirname(os.path.abspath(__file__)))
import z3  # noqa: E402
import mirsym as ms  # noqa: E402
from mirsym import Unsupported  # noqa: E402

SCRATCH = os.environ.get("VERIF_SCRATCH", "/var/tmp/varlink-verif")
SERVICE = "org.varlink.service"
SVC_ID = 7


def dump_mir(repo):
    crate = os.path.join(repo, "varlink")
    os.utime(os.path.join(crate, "src", "lib.rs"))
    env = dict(os.environ)
    env.update({"CARGO_NET_OFFLINE": "true", "CARGO_TARGET_DIR": os.path.join(SCRATCH, "mir-tgt")})
    p = subprocess.run(["cargo", "+nightly", "rustc", "--offline", "--lib", "--", "-Zunpretty=mir",
                        "-C", "debug-assertions=off"], cwd=crate, env=env, stdout=subprocess.PIPE,
                       stderr=subprocess.PIPE, text=True, timeout=1500)
    if p.returncode != 0 or "fn " not in p.stdout:
        raise Unsupported("MIR dump failed: %s" % p.stderr[-400:])
    return p.stdout


def sval(x):
    if isinstance(x, str):
        if x == SERVICE:
            return z3.IntVal(SVC_ID)
        raise Unsupported("string constant %r" % x)
    return x


def events(path):
    if "__events" not in path.locals:
        path.locals["__events"] = ms.VecV()
    return path.locals["__events"].items


def boxed(obj):
    return ms.Struct({0: ms.Struct({0: obj})}, "Box")


def unbox(b):
    while isinstance(b, ms.Struct) and b.tag == "Box":
        b = b.f[0].f[0]
    return b


def common_models():
    def m_identity(ex, path, a):
        return a[0]

    def m_map_new(ex, path, a):
        return ms.MapV()

    def m_into_iter(ex, path, a):
        return ms.IterV(a[0].items)

    def m_next(ex, path, a):
        it = ex.load(path, a[0])
        if it.pos < len(it.items):
            it.pos += 1
            return ms.some(it.items[it.pos - 1])
        return ms.none()

    def m_get_name(ex, path, a):
        o = unbox(ex.load(path, a[0]))
        if not isinstance(o, ms.Struct) or o.tag != "iface":
            raise Unsupported("get_name on %r" % (o,))
        return o.f[0]

    def m_insert(ex, path, a):
        mp = ex.load(path, a[0])
        key = sval(a[1])
        alts = []
        keys = [sval(e[0]) for e in mp.entries]
        for i in range(len(keys)):
            def eff(q, args, i=i):
                m2 = ex.load(q, args[0])
                old = m2.entries[i][1]
                m2.entries[i][1] = args[2]
                return ms.some(old)
            alts.append((keys[i] == key, eff))

        def fresh(q, args):
            ex.load(q, args[0]).entries.append([args[1], args[2]])
            return ms.none()
        alts.append((z3.And(*[k != key for k in keys]) if keys else True, fresh))
        return ms.Fork(alts)

    def m_new_uninit(ex, path, a):
        path.locals["__vecbox"] = ms.Struct({1: ms.Struct({0: ms.Struct({0: None})})}, "MaybeUninit")
        return boxed(ms.Ref("__vecbox", ()))

    def m_into_vec(ex, path, a):
        r = unbox(a[0])
        inner = ex.load(path, r)
        v = inner.f[1].f[0].f[0]
        if not isinstance(v, ms.VecV):
            raise Unsupported("vec! contents %r" % (v,))
        return ms.VecV(v.items)

    def m_vec_push(ex, path, a):
        ex.load(path, a[0]).items.append(a[1])
        return ms.Opaque("()")

    def m_vec_new(ex, path, a):
        return ms.VecV()

    def m_clone(ex, path, a):
        return ex.load(path, a[0])

    def m_keys(ex, path, a):
        mp = ex.load(path, a[0])
        return ms.IterV([e[0] for e in mp.entries])

    def m_extend(ex, path, a):
        v = ex.load(path, a[0])
        it = a[1]
        v.items.extend(it.items[it.pos:])
        return ms.Opaque("()")

    def m_is_empty(ex, path, a):
        c = ex.load(path, a[0])
        return len(c.entries if isinstance(c, ms.MapV) else c.items) == 0

    def m_len(ex, path, a):
        c = ex.load(path, a[0])
        return len(c.entries if isinstance(c, ms.MapV) else c.items)

    def m_entry(ex, path, a):
        return ms.Struct({0: a[0], 1: a[1]}, "Entry")

    def m_or_insert(ex, path, a):
        ent = a[0]
        if not isinstance(ent, ms.Struct) or ent.tag != "Entry":
            raise Unsupported("or_insert on %r" % (ent,))
        mp = ex.load(path, ent.f[0])
        key = sval(ent.f[1])
        alts = []
        for i, e in enumerate(mp.entries):
            def eff(q, args, i=i):
                r = args[0].f[0]
                return ex.load(q, r).entries[i][1]
            alts.append((sval(e[0]) == key, eff))

        def fresh(q, args):
            ex.load(q, args[0].f[0]).entries.append([args[0].f[1], args[1]])
            return args[1]
        alts.append((z3.And(*[sval(e[0]) != key for e in mp.entries]) if mp.entries else True, fresh))
        return ms.Fork(alts)

    def m_contains_key(ex, path, a):
        mp = ex.load(path, a[0])
        k = sval(ex.load(path, a[1]))
        if not mp.entries:
            return False
        return z3.Or(*[sval(e[0]) == k for e in mp.entries])

    def m_index(ex, path, a):
        mp = ex.load(path, a[0])
        k = sval(ex.load(path, a[1]))
        alts = []
        for i, e in enumerate(mp.entries):
            def eff(q, args, i=i):
                return ex.load(q, args[0]).entries[i][1]
            alts.append((sval(e[0]) == k, eff))

        def missing(q, args):
            events(q).append(("panic", "index of a missing key"))
            return boxed(ms.Struct({0: z3.IntVal(-1), 1: -1}, "iface"))   # the real code panics here; recorded above
        alts.append((z3.And(*[sval(e[0]) != k for e in mp.entries]) if mp.entries else True, missing))
        return ms.Fork(alts)

    def m_str_eq(ex, path, a):
        return sval(ex.load(path, a[0])) == sval(ex.load(path, a[1]))

    def m_dispatch(ex, path, a):
        events(path).append(("dispatch", unbox(ex.load(path, a[0]))))
        return ms.Enum(z3.Int("impl_result"), {"Ok": ms.Struct({0: ms.Opaque("()")}), "Err": ms.Struct({0: ms.Opaque("e")})})

    def m_builtin(ex, path, a):
        events(path).append(("builtin",))
        return ms.Enum(z3.Int("builtin_result"), {"Ok": ms.Struct({0: ms.Opaque("()")}), "Err": ms.Struct({0: ms.Opaque("e")})})

    def m_inf(ex, path, a):
        events(path).append(("interface_not_found", a[1]))
        return ms.Enum(z3.Int("inf_result"), {"Ok": ms.Struct({0: ms.Opaque("()")}), "Err": ms.Struct({0: ms.Opaque("e")})})

    return [
        (r"^HashMap::<.*>::new$", m_map_new), (r"as IntoIterator>::into_iter$", m_into_iter), (r"IntoIter<.*> as Iterator>::next$", m_next),
        (r"as Interface>::get_name$", m_get_name), (r"<&?(str|S) as Into<.*>>::into$", m_identity), (r"^HashMap::<.*>::insert$", m_insert),
        (r"^Box::<\[.*; 1\]>::new_uninit$", m_new_uninit), (r"box_assume_init_into_vec_unsafe::<.*>$", m_into_vec),
        (r"^Vec::<Cow<'_, str>>::push$", m_vec_push), (r"^Vec::<Cow<'_, str>>::new$", m_vec_new),
        (r"^<Cow<'_, str> as Clone>::clone$", m_clone),
        (r"^HashMap::<.*>::keys$", m_keys), (r"as Iterator>::cloned::<.*>$", m_identity), (r"as Extend<.*>>::extend::<.*>$", m_extend),
        (r"^HashMap::<.*>::contains_key::<str>$", m_contains_key), (r"^HashMap::<.*>::is_empty$", m_is_empty),
        (r"^HashMap::<.*>::len$", m_len), (r"^HashMap::<.*>::entry$", m_entry), (r"Entry::<.*>::or_insert$", m_or_insert), (r"as std::ops::Index<&str>>::index$", m_index),
        (r"^<str as PartialEq>::eq$", m_str_eq), (r"^<dyn Interface \+ Send \+ Sync as Interface>::call$", m_dispatch),
        (r"^<VarlinkService as Interface>::call$", m_builtin), (r"^Call::<'_>::reply_interface_not_found$", m_inf),
    ]


MODEL_DOC = [
    "MIR symbolic execution (smt/mirsym.py, smt/c03_table.py); callees are replaced by contract models:",
    "HashMap::new / insert (Some(old) and replaced iff an equal key is present) / keys (every key once, in an order the oracle does "
    "not rely on) / contains_key / Index::index (panic event if the key is missing) -> association list, one successor per case",
    "Vec IntoIterator / next, Keys::cloned, Vec::extend, the vec! expansion (Box::new_uninit + box_assume_init_into_vec_unsafe) -> sequences",
    "<dyn Interface>::get_name -> the name the registered object was given; Into<Cow<str>> / Into<String> -> the same string value",
    "<dyn Interface>::call, <VarlinkService as Interface>::call (built-in interface), Call::reply_interface_not_found -> recorded "
    "events, Ok or Err (free)",
]


def run_new(n, mir, solver):
    params, blocks = ms.find_function(mir, r"<impl at varlink/src/lib\.rs[^>]*>::new", r"Vec<Box<dyn Interface")
    names = [z3.Int("name%d" % i) for i in range(n)]
    base = [z3.And(x >= 100, x < 100 + n) for x in names]
    objs = [ms.Struct({0: names[i], 1: i}, "iface") for i in range(n)]
    init = {params[i]: ms.Opaque("info%d" % i) for i in range(4)}
    init[params[4]] = ms.VecV([boxed(o) for o in objs])
    ex = ms.Exec(blocks, common_models(), solver, base)
    finished = ex.run(init)
    if not finished:
        raise Unsupported("no returning path")
    checks = []
    for path, ret in finished:
        if not isinstance(ret, ms.Struct) or not ret.names:
            raise Unsupported("new returns %r" % (ret,))
        info = ret.field("info")
        lst = info.field("interfaces")
        table = ret.field("ifaces")
        if not isinstance(lst, ms.VecV) or not isinstance(table, ms.MapV):
            raise Unsupported("ServiceInfo.interfaces / ifaces")
        L = [sval(x) for x in lst.items]
        conds = [z3.BoolVal(len(L) >= 1)]
        if L:
            conds.append(L[0] == SVC_ID)
        for i in range(n):
            conds.append(z3.Sum(*[z3.If(x == names[i], 1, 0) for x in L]) == 1 if L else z3.BoolVal(False))
        for x in L[1:]:
            conds.append(z3.Or(*[x == nm for nm in names]) if names else z3.BoolVal(False))
        checks.append((path.pc, z3.Not(z3.And(*conds)), "P:c03.getinfo_lists_the_service_first_and_every_interface_once"))
        K = [sval(e[0]) for e in table.entries]
        tc = []
        for i in range(n):
            tc.append(z3.Sum(*[z3.If(k == names[i], 1, 0) for k in K]) == 1 if K else z3.BoolVal(False))
        for e in table.entries:
            o = unbox(e[1])
            tc.append(sval(e[0]) == o.f[0] if isinstance(o, ms.Struct) and o.tag == "iface" else z3.BoolVal(False))
        checks.append((path.pc, z3.Not(z3.And(*tc)) if tc else z3.BoolVal(False), "P:c03.table_maps_every_name_to_an_interface_of_that_name"))
        for i, nm in enumerate(("vendor", "product", "version", "url")):
            v = info.field(nm)
            if not (isinstance(v, ms.Opaque) and v.what == "info%d" % i):
                checks.append((path.pc, z3.BoolVal(True), "P:c03.getinfo_returns_the_configured_%s" % nm))
    return ex, finished, base, checks, names, ["P:c03.getinfo_lists_the_service_first_and_every_interface_once",
                                             "P:c03.table_maps_every_name_to_an_interface_of_that_name",
                                             "P:c03.getinfo_returns_the_configured_vendor_product_version_url"]


def run_call(mir, solver):
    params, blocks = ms.find_function(mir, r"<impl at varlink/src/lib\.rs[^>]*>::call", r"^_1: &VarlinkService, _2: &str")
    k = [z3.Int("key0"), z3.Int("key1")]
    want = z3.Int("requested")
    base = [k[0] != k[1], k[0] >= 100, k[1] >= 100, want >= 0]
    objs = [ms.Struct({0: k[i], 1: i}, "iface") for i in range(2)]
    table = ms.MapV()
    table.entries = [[k[i], boxed(objs[i])] for i in range(2)]
    svc = ms.Struct({0: ms.Opaque("info"), 1: table}, "VarlinkService")
    # field positions: info = 0, ifaces = 1 (declaration order, checked by the caller)
    ex = ms.Exec(blocks, common_models(), solver, base)
    ex.promoted = {}
    finished = ex.run({params[0]: ms.Ref("__svc", ()), "__svc": svc, params[1]: want, params[2]: ms.Ref("__call", ()), "__call": ms.Opaque("call")})
    if not finished:
        raise Unsupported("no returning path")
    checks = []
    for path, ret in finished:
        evs = events(path)
        if any(e[0] == "panic" for e in evs):
            checks.append((path.pc, z3.BoolVal(True), "P:c03.routing_never_indexes_a_missing_interface"))
        acts = [e for e in evs if e[0] != "panic"]
        if len(acts) != 1:
            checks.append((path.pc, z3.BoolVal(True), "P:c03.exactly_one_destination_per_call"))
            continue
        e = acts[0]
        if e[0] == "builtin":
            checks.append((path.pc, want != SVC_ID, "P:c03.builtin_interface_only_for_its_own_name"))
        elif e[0] == "dispatch":
            o = e[1]
            checks.append((path.pc, z3.Or(want == SVC_ID, o.f[0] != want) if isinstance(o, ms.Struct) else z3.BoolVal(True),
                           "P:c03.call_reaches_exactly_the_interface_of_that_name"))
        else:
            arg = e[1]
            named = isinstance(arg, ms.Enum) and arg.discr == 1
            val = sval(arg.payloads["Some"].f[0]) if named else None
            checks.append((path.pc, z3.Or(want == SVC_ID, want == k[0], want == k[1]), "P:c03.interface_not_found_only_for_unregistered_names"))
            checks.append((path.pc, (val != want) if named else z3.BoolVal(True), "P:c03.interface_not_found_names_the_interface"))
    return ex, finished, base, checks, [k[0], k[1], want], ["P:c03.builtin_interface_only_for_its_own_name",
                                                            "P:c03.call_reaches_exactly_the_interface_of_that_name",
                                                            "P:c03.interface_not_found_only_for_unregistered_names",
                                                            "P:c03.interface_not_found_names_the_interface",
                                                            "P:c03.routing_never_indexes_a_missing_interface"]


def run_instance(name, repo, timeout_s):
    t0 = time.time()
    mir = dump_mir(repo)
    src = open(os.path.join(repo, "varlink", "src", "lib.rs")).read()
    m = re.search(r"pub struct VarlinkService \{(.*?)\n\}", src, re.S)
    order = re.findall(r"^\s*(?:pub )?(\w+):", m.group(1), re.M) if m else []
    if order[:2] != ["info", "ifaces"]:
        raise Unsupported("VarlinkService field order %r" % order)
    solver = z3.Solver()
    solver.set("timeout", max(1000, int(timeout_s * 1000 / 4)))
    if name.startswith("c03_table_new_"):
        n = int(name.rsplit("_", 1)[1])
        ex, finished, base, checks, syms, labels = run_new(n, mir, solver)
        kind = 0
    else:
        ex, finished, base, checks, syms, labels = run_call(mir, solver)
        kind = 1
    queries = ex.queries
    failed = None
    for pc, neg, label in checks:
        solver.push(); solver.add(*base); solver.add(*pc); solver.add(neg)
        queries += 1
        r = solver.check()
        if r == z3.sat and failed is None:
            m = solver.model()
            failed = (label, [m.eval(x, model_completion=True).as_long() % 256 for x in syms])
        solver.pop()
        if r == z3.unknown:
            raise Unsupported("solver gave no answer")
    res = {"verdict": "pass", "reason": "", "checks_failed": [], "playback": [], "failed_labels": [],
           "checks_total": queries, "verification_time_s": round(time.time() - t0, 2), "oracle_ok": [], "covers": [], "covers_unsat": []}
    if failed:
        vals = [kind] + failed[1]
        if kind == 1:
            k0, k1, w = failed[1]
            vals = [1, 0 if w == SVC_ID else (1 if w == k0 else (2 if w == k1 else 3))]
        else:
            vals = [0, len(failed[1])] + [v - 100 for v in failed[1]]
        res.update(verdict="violation", failed_labels=[failed[0]], playback=[[vals]])
    else:
        res["oracle_ok"] = labels
        res["covers"] = [{"desc": "the function returns on %d path(s)" % len(finished), "status": "SATISFIED"}]
    res["detail"] = {"paths": len(finished), "models_used": sorted(ex.models_used)}
    return res


def main():
    ap = argparse.ArgumentParser()
    ap.add_argument("--repo", required=True)
    ap.add_argument("--instance", required=True)
    ap.add_argument("--out", required=True)
    ap.add_argument("--replayer")
    ap.add_argument("--timeout", type=int, default=900)
    a = ap.parse_args()
    t0 = time.time()
    try:
        res = run_instance(a.instance, a.repo, a.timeout)
    except Unsupported as e:
        res = {"verdict": "inconclusive", "reason": "outside the MIR reader / the callee models: %s" % e,
               "checks_total": 0, "checks_failed": [], "oracle_ok": [], "covers": [], "covers_unsat": [],
               "verification_time_s": None, "playback": []}
    except Exception as e:  # noqa
        import traceback
        res = {"verdict": "inconclusive", "reason": "executor error: %s" % e, "trace": traceback.format_exc(),
               "checks_total": 0, "checks_failed": [], "oracle_ok": [], "covers": [], "covers_unsat": [],
               "verification_time_s": None, "playback": []}
    res["wall_s"] = round(time.time() - t0, 1)
    res["harness"] = a.instance
    with open(a.out, "w") as fh:
        json.dump(res, fh, indent=1)
    print(json.dumps({k: v for k, v in res.items() if k not in ("detail",)}))


if __name__ == "__main__":
    main()
