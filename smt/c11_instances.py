"""Shapes explored by smt/c11.py (pure data; read by lib/registry.py as well).

name -> (prefix, kmax, suffix, what the k symbolic bytes range over, tiers, mode)
Every text  prefix + w + suffix  with w any ASCII string of length 0..kmax is covered."""
M = "\nmethod F()->()"
HDR = "interface a.b\n"
Q = ("quick", "thorough")
T = ("thorough",)

INSTANCES = {
    # interface names
    "c11_name_10": ("interface ", 10, M, "the interface name and what separates it from the first member", Q, "lang"),
    "c11_name_13": ("interface ", 13, M, "the interface name and what separates it from the first member", T, "lang"),
    "c11_name_second_element_8": ("interface ab-c.", 8, M, "the elements after the first", Q, "lang"),
    # members
    "c11_member_14": (HDR, 14, "", "a whole member list after the header (reaches `method M()->()`)", Q, "lang"),
    "c11_member_17": (HDR, 17, "", "a whole member list after the header", T, "lang"),
    "c11_member_tail_10": (HDR + "type T", 10, "", "a typedef's body and what may follow it", Q, "lang"),
    "c11_member_tail_13": (HDR + "type T", 13, "", "a typedef's body and what may follow it", T, "lang"),
    "c11_method_tail_10": (HDR + "method M", 10, "", "a method's signature", Q, "lang"),
    "c11_method_tail_13": (HDR + "method M", 13, "", "a method's signature", T, "lang"),
    "c11_error_tail_9": (HDR + "error E", 9, "", "an error's parameters", Q, "lang"),
    "c11_second_member_12": (HDR + "type T()\n", 12, "", "a second member", Q, "lang"),
    "c11_second_member_15": (HDR + "type T()\n", 15, "", "a second member", T, "lang"),
    # deepest bounds (minutes each)
    "c11_name_16": ("interface ", 16, M, "the interface name and what separates it from the first member", T, "lang"),
    "c11_member_19": (HDR, 19, "", "a whole member list after the header", T, "lang"),
    "c11_member_tail_15": (HDR + "type T", 15, "", "a typedef's body and what may follow it", T, "lang"),
    "c11_method_tail_16": (HDR + "method M", 16, "", "a method's signature", T, "lang"),
    "c11_type_14": (HDR + "type T(a:", 14, ")", "a type expression", T, "lang"),
    "c11_type_enum_13": (HDR + "type T(a", 13, ")", "the rest of a struct or enum after its first name", T, "lang"),
    # type expressions
    "c11_type_8": (HDR + "type T(a:", 8, ")", "a type expression", Q, "lang"),
    "c11_type_11": (HDR + "type T(a:", 11, ")", "a type expression", T, "lang"),
    "c11_type_nested_8": (HDR + "type T(a:(b:", 8, "))", "a type expression inside an anonymous struct", Q, "lang"),
    "c11_type_second_field_8": (HDR + "type T(a:int", 8, ")", "what may follow a field", Q, "lang"),
    "c11_type_enum_8": (HDR + "type T(a", 8, ")", "the rest of a struct or enum after its first name", Q, "lang"),
    "c11_type_enum_11": (HDR + "type T(a", 11, ")", "the rest of a struct or enum after its first name", T, "lang"),
    "c11_type_after_opt_7": (HDR + "type T(a:?", 7, ")", "what may follow `?`", Q, "lang"),
    "c11_type_after_array_7": (HDR + "type T(a:[]", 7, ")", "what may follow `[]`", Q, "lang"),
    "c11_type_after_dict_7": (HDR + "type T(a:[string]", 7, ")", "what may follow `[string]`", Q, "lang"),
    "c11_type_after_optarray_7": (HDR + "type T(a:?[]", 7, ")", "what may follow `?[]`", Q, "lang"),
    "c11_type_after_optdict_7": (HDR + "type T(a:?[string]", 7, ")", "what may follow `?[string]`", Q, "lang"),
    "c11_type_in_method_out_7": (HDR + "method M()->(a:", 7, ")", "a type expression in a method's output", Q, "lang"),
    # layout: blanks, comments, line ends
    "c11_layout_lead_8": ("", 8, "interface a.b\ntype T()", "what may stand before `interface`", Q, "lang"),
    "c11_layout_lead_11": ("", 11, "interface a.b\ntype T()", "what may stand before `interface`", T, "lang"),
    "c11_layout_hdr_6": ("interface", 6, "a.b\ntype T()", "what separates the keyword from the name", Q, "lang"),
    "c11_layout_eol_7": ("interface a.b", 7, "type T()", "what separates the name from the first member", Q, "lang"),
    "c11_layout_sep_7": ("interface a.b\ntype T()", 7, "error E()", "what separates two members", Q, "lang"),
    "c11_layout_sep_10": ("interface a.b\ntype T()", 10, "error E()", "what separates two members", T, "lang"),
    "c11_layout_trail_8": ("interface a.b\ntype T()", 8, "", "what may follow the last member", Q, "lang"),
    "c11_layout_trail_11": ("interface a.b\ntype T()", 11, "", "what may follow the last member", T, "lang"),
    "c11_layout_comment_7": (HDR + "#", 7, "\ntype T()", "the inside of a comment and what follows it", Q, "lang"),
    "c11_layout_in_struct_6": (HDR + "type T(", 6, "a:int)", "what may stand before a field", Q, "lang"),
    "c11_layout_arrow_6": (HDR + "method M()", 6, "()", "what stands between input and output of a method", Q, "lang"),
    # C12 (termination clause): no repetition of the grammar can match the empty string on any text of these shapes
    "c12_progress_any_10": ("", 10, "", "the whole text", Q, "progress"),
    "c12_progress_any_14": ("", 14, "", "the whole text", T, "progress"),
    "c12_progress_members_14": (HDR, 14, "", "everything after the header", Q, "progress"),
    "c12_progress_members_18": (HDR, 18, "", "everything after the header", T, "progress"),
    "c12_progress_types_10": (HDR + "type T(a:", 10, ")", "a type expression", Q, "progress"),
    "c12_progress_types_14": (HDR + "type T(a:", 14, ")", "a type expression", T, "progress"),
}
