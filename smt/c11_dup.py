#!/usr/bin/env python3
"""C11, second half: a definition is rejected exactly when a member name is defined twice across
methods, types and errors; every duplicated name is named; the accepted structure lists the members
per kind in order of appearance.

  c11_dup.py --repo DIR --instance c11_ft_<n> --out FILE [--timeout S]

The MIR of varlink_parser (rustc nightly, -Zunpretty=mir) is dumped from DIR on every run, the body of
IDL::from_token is executed symbolically (mirsym.py) on a member list of n members whose kinds and
names are z3 variables, and on every path the oracle below is handed to z3 as a query
`path condition and not property`; unsat on all paths = the property holds for every list of n
members.  A model is a concrete member list, replayed natively through the real IDL::try_from."""
import argparse
import json
import os
import re
import subprocess
import sys
import time

sys.path.insert(0, os.path.dirname(os.path.abspath(__file__)))
import z3  # noqa: E402
import mirsym as ms  # noqa: E402
from mirsym import Unsupported  # noqa: E402

SCRATCH = os.environ.get("VERIF_SCRATCH", "/var/tmp/varlink-verif")


def dump_mir(repo):
    crate = os.path.join(repo, "varlink_parser")
    os.utime(os.path.join(crate, "src", "lib.rs"))
    env = dict(os.environ)
    env.update({"CARGO_NET_OFFLINE": "true", "CARGO_TARGET_DIR": os.path.join(SCRATCH, "mir-tgt")})
    p = subprocess.run(["cargo", "+nightly", "rustc", "--offline", "--lib", "--", "-Zunpretty=mir",
                        "-C", "debug-assertions=off"], cwd=crate, env=env, stdout=subprocess.PIPE,
                       stderr=subprocess.PIPE, text=True, timeout=900)
    if p.returncode != 0 or "fn " not in p.stdout:
        raise Unsupported("MIR dump failed: %s" % p.stderr[-400:])
    return p.stdout


def source_layout(repo):
    """variant order of MethodOrTypedefOrError and the index of `name` in the member structs"""
    src = open(os.path.join(repo, "varlink_parser", "src", "lib.rs")).read()
    m = re.search(r"enum MethodOrTypedefOrError<'a>\s*\{(.*?)\}", src, re.S)
    if not m:
        raise Unsupported("enum MethodOrTypedefOrError not found")
    variants = re.findall(r"(\w+)\((\w+)<'a>\)", m.group(1))
    if sorted(v for v, _ in variants) != ["Error", "Method", "Typedef"]:
        raise Unsupported("member enum variants %r" % (variants,))
    name_idx = {}
    for var, ty in variants:
        sm = re.search(r"pub struct %s<'a>\s*\{(.*?)\}" % ty, src, re.S)
        if not sm:
            raise Unsupported("struct %s" % ty)
        fields = re.findall(r"pub (\w+)\s*:", sm.group(1))
        if "name" not in fields:
            raise Unsupported("struct %s has no name field" % ty)
        name_idx[var] = (fields.index("name"), len(fields))
    return [v for v, _ in variants], name_idx


# ---------------------------------------------------------------- models of the callees (the stubs)

def m_new_map(ex, path, a):
    return ms.MapV()


def m_new_vec(ex, path, a):
    return ms.VecV()


def m_new_set(ex, path, a):
    return ms.SetV()


def m_into_iter(ex, path, a):
    if not isinstance(a[0], ms.VecV):
        raise Unsupported("into_iter of %r" % (a[0],))
    return ms.IterV(a[0].items)


def m_next(ex, path, a):
    it = ex.load(path, a[0])
    if not isinstance(it, ms.IterV):
        raise Unsupported("next on %r" % (it,))
    if it.pos < len(it.items):
        it.pos += 1
        return ms.some(it.items[it.pos - 1])
    return ms.none()


def m_deref(ex, path, a):
    return a[0]


def m_contains(ex, path, a):
    v = ex.load(path, a[0])
    x = ex.load(path, a[1])
    if not isinstance(v, ms.VecV):
        raise Unsupported("contains on %r" % (v,))
    if not v.items:
        return False
    return z3.Or(*[e == x for e in v.items])


def m_push(ex, path, a):
    v = ex.load(path, a[0])
    if not isinstance(v, ms.VecV):
        raise Unsupported("push on %r" % (v,))
    v.items.append(a[1])
    return ms.Opaque("()")


def m_vec_insert(ex, path, a):
    v = ex.load(path, a[0])
    if not isinstance(v, ms.VecV) or not isinstance(a[1], int) or a[1] > len(v.items):
        raise Unsupported("Vec::insert(%r)" % (a[1],))
    v.items.insert(a[1], a[2])
    return ms.Opaque("()")


def m_len(ex, path, a):
    v = ex.load(path, a[0])
    if isinstance(v, ms.VecV):
        return len(v.items)
    if isinstance(v, ms.MapV):
        return len(v.entries)
    raise Unsupported("len of %r" % (v,))


def m_map_contains_key(ex, path, a):
    mp = ex.load(path, a[0])
    k = ex.load(path, a[1])
    if not isinstance(mp, ms.MapV):
        raise Unsupported("contains_key on %r" % (mp,))
    if not mp.entries:
        return False
    return z3.Or(*[e[0] == k for e in mp.entries])


def m_map_insert(ex, path, a):
    mp = ex.load(path, a[0])
    key = a[1]
    if not isinstance(mp, ms.MapV):
        raise Unsupported("insert on %r" % (mp,))
    alts = []
    keys = [e[0] for e in mp.entries]
    for i in range(len(keys)):
        def eff(q, args, i=i):
            m2 = ex.load(q, args[0])
            old = m2.entries[i][1]
            m2.entries[i][1] = args[2]
            return ms.some(old)
        alts.append((keys[i] == key, eff))

    def fresh(q, args):
        ex.load(q, args[0]).entries.append([args[1], args[2]])
        return ms.none()
    alts.append((z3.And(*[k != key for k in keys]) if keys else True, fresh))
    return ms.Fork(alts)


def m_set_insert(ex, path, a):
    s = ex.load(path, a[0])
    if not isinstance(s, ms.SetV):
        raise Unsupported("insert on %r" % (s,))
    s.items.append(a[1])
    return ms.Opaque("bool")


def m_new_display(ex, path, a):
    return ms.FmtArg(ex.load(path, a[0]))


def m_arguments_new(ex, path, a):
    arr = ex.load(path, a[1])
    if not isinstance(arr, ms.VecV):
        raise Unsupported("format arguments %r" % (arr,))
    return ms.FmtString(a[0], [x.value if isinstance(x, ms.FmtArg) else x for x in arr.items])


def m_identity(ex, path, a):
    return a[0]


MODELS = [
    (r"BTreeMap::<.*>::new$", m_new_map),
    (r"Vec::<.*>::new$", m_new_vec),
    (r"HashSet::<.*>::new$", m_new_set),
    (r"as IntoIterator>::into_iter$", m_into_iter),
    (r"IntoIter<.*> as Iterator>::next$", m_next),
    (r"<Vec<.*> as Deref>::deref$", m_deref),
    (r"slice::<impl \[.*\]>::contains$", m_contains),
    (r"Vec::<.*>::push$", m_push),
    (r"Vec::<.*>::insert$", m_vec_insert),
    (r"Vec::<.*>::len$", m_len),
    (r"BTreeMap::<.*>::len$", m_len),
    (r"BTreeMap::<.*>::contains_key::<.*>$", m_map_contains_key),
    (r"BTreeMap::<.*>::insert$", m_map_insert),
    (r"HashSet::<.*>::insert$", m_set_insert),
    (r"Argument::<.*>::new_display::<.*>$", m_new_display),
    (r"Arguments::<.*>::new::<.*>$", m_arguments_new),
    (r"^format$", m_identity),
    (r"^must_use::<.*>$", m_identity),
]
MODEL_DOC = [
    "BTreeMap::new / Vec::new / HashSet::new -> empty association list / sequence / collection",
    "<Vec<T> as IntoIterator>::into_iter, <IntoIter<T> as Iterator>::next -> the elements in order, then None",
    "<Vec<&str> as Deref>::deref + <[&str]>::contains(x) -> some element equals x",
    "Vec::push -> appended at the end",
    "BTreeMap::insert(k, v) -> Some(old value) and the value replaced if a key equal to k is present, else None and "
    "the entry added (one successor path per case)",
    "HashSet<String>::insert -> the message is recorded (messages are not compared with each other)",
    "fmt::rt::Argument::new_display / fmt::Arguments::new / alloc::fmt::format / must_use -> a message value that "
    "remembers the values it was formatted from",
    "drop, StorageLive/Dead, unwind edges: no effect (the models do not panic)",
]


def run_instance(name, repo, timeout_s):
    n = int(name.rsplit("_", 1)[1])
    t0 = time.time()
    variants, name_idx = source_layout(repo)
    mir = dump_mir(repo)
    params, blocks = ms.find_function(mir, r"::from_token")
    if len(params) != 4:
        raise Unsupported("from_token takes %d parameters" % len(params))
    kinds = [z3.Int("kind%d" % i) for i in range(n)]
    names = [z3.Int("name%d" % i) for i in range(n)]
    base = []
    for k, x in zip(kinds, names):
        base += [k >= 0, k < len(variants), x >= 0, x < n]
    members = []
    for i in range(n):
        payloads = {}
        for var in variants:
            idx, cnt = name_idx[var]
            inner = ms.Struct({j: ms.Opaque("%s.%d" % (var, j)) for j in range(cnt)}, var)
            inner.f[idx] = names[i]
            payloads[var] = ms.Struct({0: inner})
        members.append(ms.Enum(kinds[i], payloads))
    solver = z3.Solver()
    solver.set("timeout", max(1000, int(timeout_s * 1000 / 4)))
    ex = ms.Exec(blocks, MODELS, solver, base)
    iface = ms.Opaque("interface-name")
    descr = ms.Opaque("description")
    doc = ms.Opaque("doc")
    finished = ex.run({params[0]: descr, params[1]: iface, params[2]: ms.VecV(members), params[3]: doc})
    if not finished:
        raise Unsupported("no path of from_token returns")
    queries = ex.queries
    K = {v: i for i, v in enumerate(variants)}
    dup = z3.Or(*[names[i] == names[j] for i in range(n) for j in range(i + 1, n)]) if n > 1 else z3.BoolVal(False)
    failed = None
    oracle_ok = set()
    both = {"dup": False, "nodup": False}

    def ask(pc, neg, label):
        nonlocal queries, failed
        solver.push()
        solver.add(*base)
        solver.add(*pc)
        solver.add(neg)
        queries += 1
        r = solver.check()
        wit = None
        if r == z3.sat:
            m = solver.model()
            clean = "order_of_appearance" not in label
            if not clean:
                # prefer a witness the public API can show: without duplicates try_from returns the structure
                solver.add(z3.Not(dup))
                queries += 1
                if solver.check() == z3.sat:
                    m = solver.model()
                    clean = True
            wit = [(m.eval(k, model_completion=True).as_long(), m.eval(x, model_completion=True).as_long())
                   for k, x in zip(kinds, names)]
            if failed is None or (clean and not failed[2]):
                failed = (label, wit, clean)
        solver.pop()
        if r == z3.unknown:
            raise Unsupported("solver gave no answer (%s)" % label)
        return r == z3.unsat

    for path, idl in finished:
        if time.time() - t0 > timeout_s:
            raise Unsupported("time budget exhausted after %d paths" % len(finished))
        if not isinstance(idl, ms.Struct) or not idl.names:
            raise Unsupported("from_token returns %r" % (idl,))
        pc = path.pc
        err = idl.field("error")
        reported = len(err.items) > 0
        # P1: rejected exactly when a name is defined twice
        lab = "P:c11.duplicate_name_is_rejected" if not reported else "P:c11.definition_without_duplicates_is_accepted"
        ask(pc, dup if not reported else z3.Not(dup), lab)
        # P2: every duplicated name is named in some message
        for i in range(n):
            for j in range(i + 1, n):
                named = [a == names[i] for s in err.items if isinstance(s, ms.FmtString)
                         for a in s.args if z3.is_int(a)]
                ask(pc, z3.And(names[i] == names[j], z3.Not(z3.Or(*named)) if named else z3.BoolVal(True)),
                    "P:c11.every_duplicated_name_is_named")
        # P3: per kind, the key list is the members of that kind in order of appearance, the map holds them
        for var, kf, mf in (("Method", "method_keys", "methods"), ("Typedef", "typedef_keys", "typedefs"),
                            ("Error", "error_keys", "errors")):
            keys = idl.field(kf)
            mp = idl.field(mf)
            if not isinstance(keys, ms.VecV) or not isinstance(mp, ms.MapV):
                raise Unsupported("IDL.%s / IDL.%s" % (kf, mf))
            cnt = z3.Sum(*[z3.If(kinds[i] == K[var], 1, 0) for i in range(n)]) if n else z3.IntVal(0)
            conds = [cnt == len(keys.items)]
            for i in range(n):
                rank = z3.Sum(*[z3.If(kinds[j] == K[var], 1, 0) for j in range(i)]) if i else z3.IntVal(0)
                for t, e in enumerate(keys.items):
                    conds.append(z3.Implies(z3.And(kinds[i] == K[var], rank == t), e == names[i]))
                conds.append(z3.Implies(kinds[i] == K[var], z3.Or(*[ent[0] == names[i] for ent in mp.entries])
                                        if mp.entries else z3.BoolVal(False)))
            for ent in mp.entries:
                conds.append(z3.Or(*[z3.And(kinds[i] == K[var], names[i] == ent[0]) for i in range(n)]))
                val = ent[1]
                if isinstance(val, ms.Struct):
                    conds.append(val.f[name_idx[var][0]] == ent[0])
            ask(pc, z3.Not(z3.And(*conds)), "P:c11.%s_in_order_of_appearance" % var.lower())
        # P4: the header fields are the parser's captures
        if idl.field("name") is not iface and not (isinstance(idl.field("name"), ms.Opaque) and idl.field("name").what == iface.what):
            failed = failed or ("P:c11.interface_name_kept", [(0, 0)] * n, False)
        solver.push(); solver.add(*base); solver.add(*pc); solver.add(dup)
        both["dup"] = both["dup"] or solver.check() == z3.sat
        solver.pop()
        solver.push(); solver.add(*base); solver.add(*pc); solver.add(z3.Not(dup))
        both["nodup"] = both["nodup"] or solver.check() == z3.sat
        solver.pop()
        queries += 2
    res = {"verdict": "pass", "reason": "", "checks_failed": [], "playback": [], "failed_labels": [],
           "checks_total": queries, "verification_time_s": round(time.time() - t0, 2)}
    if failed:
        label, wit, _clean = failed
        vals = [n]
        for k, x in wit:
            vals += [{"Method": 0, "Typedef": 1, "Error": 2}[variants[k]], x]
        res.update(verdict="violation", failed_labels=[label], playback=[[vals]])
        res["oracle_ok"] = []
        res["covers"] = []
        res["covers_unsat"] = []
    else:
        res["oracle_ok"] = ["P:c11.duplicate_name_is_rejected", "P:c11.definition_without_duplicates_is_accepted",
                            "P:c11.every_duplicated_name_is_named", "P:c11.method_in_order_of_appearance",
                            "P:c11.typedef_in_order_of_appearance", "P:c11.error_in_order_of_appearance",
                            "P:c11.interface_name_kept"]
        res["covers"] = [{"desc": "a path with a duplicated name", "status": "SATISFIED" if both["dup"] or n < 2 else "UNSATISFIABLE"},
                         {"desc": "a path with distinct names", "status": "SATISFIED" if both["nodup"] else "UNSATISFIABLE"}]
        res["covers_unsat"] = [c["desc"] for c in res["covers"] if c["status"] != "SATISFIED"]
        if res["covers_unsat"]:
            res.update(verdict="inconclusive", reason="vacuous: cover not satisfied: %s" % res["covers_unsat"])
    res["detail"] = {"members": n, "paths": len(finished), "basic_blocks": len(blocks),
                     "models_used": sorted(ex.models_used), "variants": variants}
    return res


def main():
    ap = argparse.ArgumentParser()
    ap.add_argument("--repo", required=True)
    ap.add_argument("--instance", required=True)
    ap.add_argument("--out", required=True)
    ap.add_argument("--replayer")
    ap.add_argument("--timeout", type=int, default=900)
    a = ap.parse_args()
    t0 = time.time()
    try:
        res = run_instance(a.instance, a.repo, a.timeout)
    except Unsupported as e:
        res = {"verdict": "inconclusive", "reason": "outside the MIR reader / the callee models: %s" % e,
               "checks_total": 0, "checks_failed": [], "oracle_ok": [], "covers": [], "covers_unsat": [],
               "verification_time_s": None, "playback": []}
    except Exception as e:  # noqa
        import traceback
        res = {"verdict": "inconclusive", "reason": "executor error: %s" % e, "trace": traceback.format_exc(),
               "checks_total": 0, "checks_failed": [], "oracle_ok": [], "covers": [], "covers_unsat": [],
               "verification_time_s": None, "playback": []}
    res["wall_s"] = round(time.time() - t0, 1)
    res["harness"] = a.instance
    with open(a.out, "w") as fh:
        json.dump(res, fh, indent=1)
    print(json.dumps({k: v for k, v in res.items() if k not in ("detail",)}))


if __name__ == "__main__":
    main()
