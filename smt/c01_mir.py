#!/usr/bin/env python3
"""C01 / C02 / C06 at message granularity: the MIR of <VarlinkService as ConnectionHandler>::handle
executed symbolically with the *stream* as a nondeterministic stub.

  c01_mir.py --repo DIR --instance c01_handle_mir_<K> --out FILE

Every `read_until(0, buf)` yields: a complete message (NUL-terminated), a partial message (no NUL, then end
of stream), end of stream, or an I/O error; a message parses or not; its method has a dot or not; the
dispatcher (VarlinkService::call) writes what it writes, returns Ok or Err and may mark the call upgraded.
Bound: at most K reads per run."""
import argparse
import json
import os
import re
import subprocess
import sys
import time

sys.path.insert(0, os.path.dirname(os.path.abspath(__file__)))
import z3  # noqa: E402
import mirsym as ms  # noqa: E402
from mirsym import Unsupported  # noqa: E402

SCRATCH = os.environ.get("VERIF_SCRATCH", "/var/tmp/varlink-verif")
CNT = [0]


def fresh(p):
    CNT[0] += 1
    return "%s_%d" % (p, CNT[0])


def dump_mir(repo):
    crate = os.path.join(repo, "varlink")
    os.utime(os.path.join(crate, "src", "lib.rs"))
    env = dict(os.environ)
    env.update({"CARGO_NET_OFFLINE": "true", "CARGO_TARGET_DIR": os.path.join(SCRATCH, "mir-tgt")})
    p = subprocess.run(["cargo", "+nightly", "rustc", "--offline", "--lib", "--", "-Zunpretty=mir",
                        "-C", "debug-assertions=off"], cwd=crate, env=env, stdout=subprocess.PIPE,
                       stderr=subprocess.PIPE, text=True, timeout=1500)
    if p.returncode != 0 or "fn " not in p.stdout:
        raise Unsupported("MIR dump failed: %s" % p.stderr[-400:])
    return p.stdout


def events(path):
    if "__events" not in path.locals:
        path.locals["__events"] = ms.VecV()
    return path.locals["__events"].items


def res(tag, okval=None):
    d = z3.Int(fresh(tag))
    return ms.Enum(d, {"Ok": ms.Struct({0: okval if okval is not None else ms.Opaque(tag)}),
                       "Err": ms.Struct({0: ms.Opaque(tag + " error")})})


def run(name, repo, timeout_s):
    t0 = time.time()
    K = int(name.rsplit("_", 1)[1])
    mir = dump_mir(repo)
    src = open(os.path.join(repo, "varlink", "src", "lib.rs")).read()
    m = re.search(r"pub struct Call<'a> \{(.*?)\n\}", src, re.S)
    order = re.findall(r"^\s*(?:pub )?(\w+):", m.group(1), re.M) if m else []
    if order != ["writer", "request", "continues", "upgraded"]:
        raise Unsupported("Call fields %r" % order)
    m = re.search(r"pub struct Request<'a> \{(.*?)\n\}", src, re.S)
    order = [x for x in re.findall(r"^\s*pub (\w+):", m.group(1), re.M)] if m else []
    if order != ["more", "oneway", "upgrade", "method", "parameters"]:
        raise Unsupported("Request fields %r" % order)
    hm = re.search(r"^fn (<impl at varlink/src/lib\.rs[^>]*>)::handle\(_1: &VarlinkService", mir, re.M)
    if not hm:
        raise Unsupported("handle not found")
    params, blocks = ms.find_function(mir, re.escape(hm.group(1)) + "::handle", r"^_1: &VarlinkService")
    solver = z3.Solver()
    solver.set("timeout", max(1000, int(timeout_s * 1000 / 4)))
    base = []

    def m_identity(ex, path, a):
        return a[0]

    def m_load(ex, path, a):
        return ex.load(path, a[0])

    def m_vec_new(ex, path, a):
        return ms.Struct({0: "empty", 1: -1}, "buf")

    def m_read_until(ex, path, a):
        reads = [e for e in events(path) if e[0] == "read"]
        ended = any(e[1] in ("partial", "eof", "ioerror") for e in reads)
        if len(reads) >= K:
            return ms.Fork([])
        idx = len(reads)

        def mk(kind):
            def eff(q, args):
                events(q).append(("read", kind, idx))
                if kind in ("message", "partial"):
                    q_buf = args[2]
                    cur = ex.load(q, q_buf)
                    stale = isinstance(cur, ms.Struct) and cur.tag == "buf" and cur.f[0] != "empty"
                    # read_until appends: a buffer that still holds an earlier message becomes earlier bytes + this read
                    ex.write(q, q_buf.local, q_buf.proj, ms.Struct({0: "stale+" + kind if stale else kind, 1: idx}, "buf"))
                    L = z3.Int("len%d" % idx)
                    q.pc.append(L >= 1)
                    return ms.Enum(0, {"Ok": ms.Struct({0: L}), "Err": ms.Struct({0: ms.Opaque("io")})})
                if kind == "eof":
                    return ms.Enum(0, {"Ok": ms.Struct({0: 0}), "Err": ms.Struct({0: ms.Opaque("io")})})
                return ms.Enum(1, {"Err": ms.Struct({0: ms.Opaque("io error")}), "Ok": ms.Struct({0: 0})})
            return eff
        k = z3.Int(fresh("read"))
        if ended:
            return ms.Fork([(True, mk("eof"))])
        return ms.Fork([(k == 0, mk("message")), (k == 1, mk("partial")), (k == 2, mk("eof")), (k == 3, mk("ioerror"))])

    def m_get(ex, path, a):
        buf = ex.load(path, a[0])
        if isinstance(buf, ms.Ref):
            buf = ex.load(path, buf)
        if not isinstance(buf, ms.Struct) or buf.tag != "buf":
            raise Unsupported("get on %r" % (buf,))
        idx = a[1]
        kind, i = buf.f[0], buf.f[1]
        if kind == "empty":
            return ms.none()
        L = z3.Int("len%d" % i)
        last = 0 if kind.endswith("message") else z3.Int("lastbyte%d" % i)
        if not kind.endswith("message"):
            path.pc.append(z3.And(last >= 1, last <= 255))
        idx = idx if not isinstance(idx, int) else z3.IntVal(idx)
        inner = z3.Int(fresh("innerbyte"))
        return ms.Fork([(idx == L - 1, lambda q, args: ms.some(last)),
                        (idx >= L, lambda q, args: ms.none()),
                        (z3.And(idx >= 0, idx < L - 1), lambda q, args: (q.pc.append(z3.And(inner >= 1, inner <= 255)), ms.some(inner))[1])])

    def m_unwrap_or(ex, path, a):
        o = a[0]
        if isinstance(o.discr, int):
            return o.payloads["Some"].f[0] if o.discr == 1 else ex.load(path, a[1])
        raise Unsupported("unwrap_or on a symbolic option")

    def m_ne(ex, path, a):
        x, y = ex.load(path, ex.load(path, a[0])), ex.load(path, ex.load(path, a[1]))
        x = z3.IntVal(x) if isinstance(x, int) else x
        y = z3.IntVal(y) if isinstance(y, int) else y
        return x != y

    def m_pop(ex, path, a):
        buf = ex.load(path, a[0])
        if isinstance(buf, ms.Struct) and buf.tag == "buf":
            events(path).append(("pop", buf.f[1]))
        return ms.Opaque("byte")

    def m_from_slice(ex, path, a):
        buf = ex.load(path, a[0])
        if isinstance(buf, ms.Ref):
            buf = ex.load(path, buf)
        if not isinstance(buf, ms.Struct) or buf.tag != "buf":
            raise Unsupported("from_slice of %r" % (buf,))
        i = buf.f[1]
        popped = any(e[0] == "pop" and e[1] == i for e in events(path))
        events(path).append(("parse", i, buf.f[0], popped))
        req = ms.Struct({0: ms.Opaque("more"), 1: ms.Opaque("oneway"), 2: ms.Opaque("upgrade"), 3: ms.Struct({0: i}, "method"),
                         4: ms.Opaque("parameters")}, "Request")
        req.msg = i
        d = z3.Int("parse%d" % i)
        base.append(z3.And(d >= 0, d <= 1))
        return ms.Enum(d, {"Ok": ms.Struct({0: req}), "Err": ms.Struct({0: ms.Opaque("serde")})})

    def m_branch(ex, path, a):
        r = a[0]
        return ms.Enum(r.discr, {"Continue": ms.Struct({0: r.payloads["Ok"].f.get(0)}),
                                 "Break": ms.Struct({0: ms.Enum(1, {"Err": r.payloads["Err"]})})})

    def m_from_residual(ex, path, a):
        return ms.Enum(1, {"Err": a[0].payloads["Err"]})

    def m_rfind(ex, path, a):
        mth = ex.load(path, a[0])
        if not isinstance(mth, ms.Struct) or mth.tag != "method":
            raise Unsupported("rfind on %r" % (mth,))
        i = mth.f[0]
        d = z3.Int("hasdot%d" % i)
        base.append(z3.And(d >= 0, d <= 1))
        return ms.Enum(d, {"Some": ms.Struct({0: z3.Int("dotpos%d" % i)})})

    def m_index(ex, path, a):
        mth = ex.load(path, a[0])
        rng = a[1]
        end = rng.f[0] if isinstance(rng, ms.Struct) else None
        return ms.Struct({0: mth.f[0] if isinstance(mth, ms.Struct) else -1, 1: end}, "prefix")

    def m_call_new(ex, path, a):
        return ms.Struct({0: a[0], 1: ms.some(a[1]), 2: False, 3: False}, "Call")

    def m_call_new_upgraded(ex, path, a):
        return ms.Struct({0: a[0], 1: ms.none(), 2: False, 3: True}, "Call")

    def m_dispatch(ex, path, a):
        call = ex.load(path, a[2])
        req = ex.load(path, call.f[1].payloads["Some"].f[0]) if isinstance(call, ms.Struct) and call.f[1].discr == 1 else None
        i = getattr(req, "msg", -1) if req is not None else -1
        r = res("impl%d" % i)
        events(path).append(("dispatch", i, ex.load(path, a[1]), r.discr))
        up = z3.Bool("upgrades%d" % i)
        call.f[3] = up
        return r

    def m_inf(ex, path, a):
        call = ex.load(path, a[0])
        req = ex.load(path, call.f[1].payloads["Some"].f[0]) if isinstance(call, ms.Struct) and call.f[1].discr == 1 else None
        i = getattr(req, "msg", -1) if req is not None else -1
        r = res("inf%d" % i)
        events(path).append(("inf", i, a[1], r.discr))
        return r

    def m_call_upgraded(ex, path, a):
        events(path).append(("upgraded_handler", ex.load(path, a[1])))
        return res("upgraded_handler", ms.Opaque("unread by the upgraded handler"))

    def m_buffer(ex, path, a):
        return ms.Opaque("bytes still buffered")

    def m_is_err(ex, path, a):
        r = ex.load(path, a[0])
        return (r.discr == 1) if not isinstance(r.discr, int) else (r.discr == 1)

    def m_is_ok(ex, path, a):
        r = ex.load(path, a[0])
        return (r.discr == 0) if not isinstance(r.discr, int) else (r.discr == 0)

    def m_is_some(ex, path, a):
        r = ex.load(path, a[0])
        return (r.discr == 1) if not isinstance(r.discr, int) else (r.discr == 1)

    def m_is_none(ex, path, a):
        r = ex.load(path, a[0])
        return (r.discr == 0) if not isinstance(r.discr, int) else (r.discr == 0)

    def m_clear(ex, path, a):
        ex.write(path, a[0].local, a[0].proj, ms.Struct({0: "empty", 1: -1}, "buf"))
        return ms.Opaque("()")

    def m_free_bool(tag):
        def m(ex, path, a):
            return z3.Bool(fresh(tag))
        return m

    models = [
        (r"Result::<.*>::is_err$", m_is_err), (r"Result::<.*>::is_ok$", m_is_ok), (r"Option::<.*>::is_some$", m_is_some),
        (r"Option::<.*>::is_none$", m_is_none), (r"^Vec::<u8>::clear$", m_clear),
        (r"<std::string::String as PartialEq<.*>>::(ne|eq)$", m_free_bool("name_test")),
        (r"^HashMap::<.*>::contains_key::<.*>$", m_free_bool("registered")), (r"slice::<impl \[u8\]>::is_empty$", m_free_bool("nothing_buffered")),
        (r"^serde_json::Error::is_(eof|data|syntax|io)$", m_free_bool("error_category")),
        (r"^BufReader::<&mut dyn BufRead>::new$", m_identity), (r"^Vec::<u8>::new$", m_vec_new),
        (r"as BufRead>::read_until$", m_read_until), (r"Result::<.*>::map_err::<.*>$", m_identity),
        (r"as Try>::branch$", m_branch), (r"as FromResidual<.*>>::from_residual$", m_from_residual),
        (r"^<Vec<u8> as Deref>::deref$", m_identity), (r"slice::<impl \[u8\]>::get::<usize>$", m_get),
        (r"Option::<&u8>::unwrap_or$", m_unwrap_or), (r"^<&u8 as PartialEq>::ne$", m_ne), (r"^Vec::<u8>::pop$", m_pop),
        (r"^from_slice::<'_, Request<'_>>$", m_from_slice), (r"^<Cow<'_, str> as Deref>::deref$", m_load),
        (r"^<Cow<'_, str> as AsRef<str>>::as_ref$", m_load), (r"str::<impl str>::rfind::<char>$", m_rfind),
        (r"^<str as std::ops::Index<RangeTo<usize>>>::index$", m_index), (r"^<std::string::String as From<&str>>::from$", m_identity),
        (r"^<std::string::String as Deref>::deref$", m_load), (r"^Call::<'_>::new$", m_call_new),
        (r"^Call::<'_>::new_upgraded$", m_call_new_upgraded), (r"^VarlinkService::call$", m_dispatch),
        (r"^Call::<'_>::reply_interface_not_found$", m_inf), (r"^VarlinkService::call_upgraded$", m_call_upgraded),
        (r"^BufReader::<&mut dyn BufRead>::buffer$", m_buffer), (r"slice::<impl \[u8\]>::to_vec$", m_identity),
    ]
    ex = ms.Exec(blocks, models, solver, base, max_steps=2000000)
    ex.promoted = ms.find_promoted(mir, r"<VarlinkService as ConnectionHandler>::handle")
    if not ex.promoted:
        ex.promoted = ms.find_promoted(mir, re.escape(hm.group(1)) + "::handle")
    upg0 = z3.Int("entered_upgraded")
    base.append(z3.And(upg0 >= 0, upg0 <= 1))
    init = {params[0]: ms.Ref("__svc", ()), "__svc": ms.Struct({0: ms.Opaque("info"), 1: ms.Opaque("interface table")}, "VarlinkService"),
            params[1]: ms.Opaque("stream"), params[2]: ms.Opaque("writer"),
            params[3]: ms.Enum(upg0, {"Some": ms.Struct({0: ms.Opaque("interface of the earlier upgrade")})})}
    finished = ex.run(init)
    if not finished:
        raise Unsupported("no returning path")
    queries = ex.queries
    failed = None
    seen = set()

    def ask(pc, neg, label, evs):
        nonlocal queries, failed
        solver.push(); solver.add(*base); solver.add(*pc); solver.add(neg)
        queries += 1
        r = solver.check()
        # prefer a run a real stream can be made to follow: no injected I/O error
        clean = all(e[1] in ("message", "partial") for e in evs if e[0] == "read")
        if r == z3.sat and (failed is None or (clean and not failed[4])):
            m = solver.model()
            script = []
            for e in evs:
                if e[0] == "read":
                    i = e[2]
                    g = lambda n: m.eval(z3.Int(n), model_completion=True).as_long()  # noqa: E731
                    dv = [x[3] for x in evs if x[0] == "dispatch" and x[1] == i]
                    script.append({"read": e[1], "parses": g("parse%d" % i) == 0, "dot": g("hasdot%d" % i) == 1,
                                   "upgrades": bool(m.eval(z3.Bool("upgrades%d" % i), model_completion=True)),
                                   "impl_err": bool(dv) and m.eval(dv[0], model_completion=True).as_long() == 1})
            failed = (label, script, m.eval(upg0, model_completion=True).as_long(), m, clean)
        solver.pop()
        if r == z3.unknown:
            raise Unsupported("solver gave no answer")

    T = z3.BoolVal(True)
    for path, ret in finished:
        if time.time() - t0 > timeout_s:
            raise Unsupported("time budget exhausted")
        evs = events(path)
        pc = path.pc
        reads = [e for e in evs if e[0] == "read"]
        is_ok = isinstance(ret, ms.Enum) and isinstance(ret.discr, int) and ret.discr == 0
        # walk the run: every complete message is parsed (without its NUL), then served exactly once, before the next read
        pending = None      # message read but not yet served
        must_close = []     # conditions under which the connection has to be closed by now
        for e in evs:
            if e[0] == "read":
                if pending is not None:
                    ask(pc, T, "P:c01.every_buffered_request_served", evs)
                pending = e[2] if e[1] == "message" else None
                for c in must_close:
                    ask(pc, c, "P:c01.nothing_read_after_an_error_or_an_upgrade", evs)
            elif e[0] == "parse":
                must_close.append(z3.Int("parse%d" % e[1]) == 1)
                if e[2] != "message":
                    ask(pc, T, "P:c02.only_complete_messages_are_parsed", evs)
                elif not e[3]:
                    ask(pc, T, "P:c02.the_terminator_is_not_part_of_the_message", evs)
            elif e[0] in ("dispatch", "inf"):
                must_close.append(e[3] == 1)
                if e[0] == "dispatch":
                    must_close.append(z3.Bool("upgrades%d" % e[1]))
                if e[1] != pending:
                    ask(pc, T, "P:c01.requests_served_in_order_exactly_once", evs)
                pending = None
                i = e[1]
                if e[0] == "dispatch":
                    ask(pc, z3.Int("hasdot%d" % i) != 1, "P:c03.dispatch_only_for_a_method_with_an_interface_part", evs)
                    pre = e[2]
                    if not (isinstance(pre, ms.Struct) and pre.tag == "prefix" and pre.f[0] == i):
                        ask(pc, T, "P:c03.interface_is_the_method_up_to_the_last_dot", evs)
                    elif pre.f[1] is not None:
                        ask(pc, pre.f[1] != z3.Int("dotpos%d" % i), "P:c03.interface_is_the_method_up_to_the_last_dot", evs)
                else:
                    ask(pc, z3.Int("hasdot%d" % i) != 0, "P:c01.interface_not_found_only_for_a_method_without_dot", evs)
                ask(pc, z3.Int("parse%d" % i) != 0, "P:c06.unparsable_message_is_not_served", evs)
        if pending is not None and is_ok:
            ask(pc, T, "P:c01.every_buffered_request_served", evs)
        # outcome
        last = reads[-1] if reads else None
        if is_ok:
            for c in must_close:
                if "upgrades" not in str(c):
                    ask(pc, c, "P:c06.failure_closes_the_connection", evs)
            tup = ret.payloads["Ok"].f[0]
            tail, iface = tup.f[0], tup.f[1]
            if evs and evs[-1][0] == "upgraded_handler" and not reads:
                seen.add("entered-upgraded")
                ok = isinstance(tail, ms.Opaque) and "unread" in tail.what and isinstance(iface, ms.Enum) and iface.discr == 1
                if not ok:
                    ask(pc, T, "P:c02.upgraded_entry_hands_the_stream_to_the_handler", evs)
                ask(pc, upg0 != 1, "P:c02.upgraded_entry_hands_the_stream_to_the_handler", evs)
            elif last and last[1] == "partial":
                seen.add("partial")
                ok = isinstance(tail, ms.Struct) and tail.tag == "buf" and tail.f[1] == last[2] and isinstance(iface, ms.Enum) and iface.discr == 0
                if not ok:
                    ask(pc, T, "P:c02.tail_is_the_incomplete_message", evs)
            elif last and last[1] == "eof":
                seen.add("eof")
                ok = isinstance(tail, ms.Struct) and tail.tag == "buf" and tail.f[0] == "empty" and isinstance(iface, ms.Enum) and iface.discr == 0
                if not ok:
                    ask(pc, T, "P:c02.tail_is_empty_at_end_of_stream", evs)
            elif last and last[1] == "message":
                # returned Ok right after serving a message: only an upgrade ends the loop
                seen.add("upgrade")
                i = last[2]
                ask(pc, z3.Not(z3.Bool("upgrades%d" % i)), "P:c02.loop_ends_after_a_message_only_on_upgrade", evs)
                ok = isinstance(tail, ms.Opaque) and "buffered" in tail.what and isinstance(iface, ms.Enum) and iface.discr == 1
                if not ok:
                    ask(pc, T, "P:c02.upgrade_returns_the_buffered_remainder_and_the_interface", evs)
            else:
                ask(pc, T, "P:c01.ok_without_reading", evs)
        else:
            seen.add("error")
            # an error return has a cause: io error, unparsable message, failing implementation / reply, failing upgraded handler
            causes = []
            for e in reads:
                if e[1] == "ioerror":
                    causes.append(T)
                if e[1] == "message":
                    causes.append(z3.Int("parse%d" % e[2]) == 1)
            for v in [d for d in [z3.Int(n) for n in []]]:
                pass
            implerr = [x for x in pc if "impl" in str(x) or "inf" in str(x) or "upgraded_handler" in str(x)]
            if not causes and not implerr:
                ask(pc, T, "P:c06.error_only_with_a_cause", evs)
        # a message that upgraded: nothing is read afterwards
        for k, e in enumerate(evs):
            if e[0] == "dispatch":
                later_reads = [x for x in evs[k + 1:] if x[0] == "read"]
                if later_reads:
                    ask(pc, z3.Bool("upgrades%d" % e[1]), "P:c02.nothing_parsed_after_upgrade", evs)
                    implv = [x for x in pc if ("impl%d_" % e[1]) in str(x)]
    out = {"verdict": "pass", "reason": "", "checks_failed": [], "playback": [], "failed_labels": [],
           "checks_total": queries, "verification_time_s": round(time.time() - t0, 2), "oracle_ok": [], "covers": [], "covers_unsat": []}
    if failed:
        label, script, up, model, _clean = failed
        vals = [up]
        for sct in script:
            vals += [{"message": 0, "partial": 1, "eof": 2, "ioerror": 3}[sct["read"]], int(sct["parses"]), int(sct["dot"]), int(sct["upgrades"]), int(sct["impl_err"])]
        out.update(verdict="violation", failed_labels=[label], witness=script, playback=[[vals]])
    else:
        out["oracle_ok"] = ["P:c01.every_buffered_request_served", "P:c01.requests_served_in_order_exactly_once",
                            "P:c01.nothing_read_after_an_error_or_an_upgrade", "P:c01.interface_not_found_only_for_a_method_without_dot",
                            "P:c02.only_complete_messages_are_parsed", "P:c02.the_terminator_is_not_part_of_the_message",
                            "P:c02.tail_is_the_incomplete_message", "P:c02.tail_is_empty_at_end_of_stream",
                            "P:c02.loop_ends_after_a_message_only_on_upgrade", "P:c02.upgrade_returns_the_buffered_remainder_and_the_interface",
                            "P:c02.nothing_parsed_after_upgrade", "P:c02.upgraded_entry_hands_the_stream_to_the_handler",
                            "P:c03.dispatch_only_for_a_method_with_an_interface_part", "P:c03.interface_is_the_method_up_to_the_last_dot",
                            "P:c06.unparsable_message_is_not_served", "P:c06.error_only_with_a_cause", "P:c06.failure_closes_the_connection"]
        want = {"partial", "eof", "upgrade", "error", "entered-upgraded"}
        out["covers"] = [{"desc": "runs ending in: %s" % ", ".join(sorted(want)), "status": "SATISFIED" if want <= seen else "UNSATISFIABLE"}]
        out["covers_unsat"] = [c["desc"] for c in out["covers"] if c["status"] != "SATISFIED"]
        if out["covers_unsat"]:
            out.update(verdict="inconclusive", reason="vacuous: %s (seen %s)" % (out["covers_unsat"], sorted(seen)))
    out["detail"] = {"paths": len(finished), "max_reads": K, "models_used": sorted(ex.models_used)}
    return out


def main():
    ap = argparse.ArgumentParser()
    ap.add_argument("--repo", required=True)
    ap.add_argument("--instance", required=True)
    ap.add_argument("--out", required=True)
    ap.add_argument("--replayer")
    ap.add_argument("--timeout", type=int, default=900)
    a = ap.parse_args()
    t0 = time.time()
    try:
        res_ = run(a.instance, a.repo, a.timeout)
    except Unsupported as e:
        res_ = {"verdict": "inconclusive", "reason": "outside the MIR reader / the callee models: %s" % e,
                "checks_total": 0, "checks_failed": [], "oracle_ok": [], "covers": [], "covers_unsat": [],
                "verification_time_s": None, "playback": []}
    except Exception as e:  # noqa
        import traceback
        res_ = {"verdict": "inconclusive", "reason": "executor error: %s" % e, "trace": traceback.format_exc(),
                "checks_total": 0, "checks_failed": [], "oracle_ok": [], "covers": [], "covers_unsat": [],
                "verification_time_s": None, "playback": []}
    res_["wall_s"] = round(time.time() - t0, 1)
    res_["harness"] = a.instance
    with open(a.out, "w") as fh:
        json.dump(res_, fh, indent=1)
    print(json.dumps({k: v for k, v in res_.items() if k not in ("detail",)}))


if __name__ == "__main__":
    main()
