"""Two bounded encodings of "which prefixes of the input does expression e match from offset i".

Input: a byte string of *concrete length* whose bytes are Python ints (concrete) or z3 8-bit
vectors (symbolic, constrained to ASCII by the caller).

* Peg: rust-peg's operational semantics - ordered choice, greedy possessive repetition, `**`/`++`
  with back-off to before a separator that is not followed by an element, `!`/`&` look-ahead.
  A PEG expression is a function: from offset i it fails or matches exactly one end offset.  The
  encoding is the table  ends[j] = condition under which e started at i ends at j  (mutually
  exclusive), plus `fail`.  Conditions are Python bools when they do not depend on a symbolic byte
  (so a fully concrete input is simply *parsed*), z3 Bool terms otherwise.
* Decl: the declarative (context-free) reading of a reference grammar: the set of all end offsets
  j such that s[i..j) is in the language of e.

Both are memoised per (node, offset) and built only for reachable offsets."""
import sys
import z3

sys.setrecursionlimit(100000)


def AND(a, b):
    if a is False or b is False:
        return False
    if a is True:
        return b
    if b is True:
        return a
    return z3.And(a, b)


def OR(a, b):
    if a is True or b is True:
        return True
    if a is False:
        return b
    if b is False:
        return a
    return z3.Or(a, b)


def NOT(a):
    if a is True:
        return False
    if a is False:
        return True
    return z3.Not(a)


def add(d, k, c):
    if c is False:
        return
    d[k] = OR(d.get(k, False), c)


class Input:
    def __init__(self, cells):
        self.cells = cells          # list of int | z3 BitVec(8)
        self.n = len(cells)
        self._cls = {}

    def in_ranges(self, i, ranges):
        """cell i is one of the (ASCII parts of the) code point ranges"""
        key = (i, ranges)
        if key in self._cls:
            return self._cls[key]
        b = self.cells[i]
        asc = [(lo, min(hi, 127)) for lo, hi in ranges if lo <= 127]
        if isinstance(b, int):
            r = any(lo <= b <= hi for lo, hi in asc)
        else:
            r = False
            for lo, hi in asc:
                c = (b == lo) if lo == hi else z3.And(z3.UGE(b, lo), z3.ULE(b, hi))
                r = OR(r, c)
        self._cls[key] = r
        return r

    def is_byte(self, i, v):
        b = self.cells[i]
        if isinstance(b, int):
            return b == v
        if v > 127:
            return False
        return b == v


class Peg:
    def __init__(self, rules, inp):
        self.rules = rules
        self.inp = inp
        self.memo = {}
        self.busy = set()
        self.diverge = False   # condition under which a repetition's body matches the empty string
        self.nodes = 0

    def run(self, e, i):
        key = (id(e), i)
        if key in self.memo:
            return self.memo[key]
        if key in self.busy:
            raise RuntimeError("left recursion at offset %d in %r" % (i, e[:2]))
        self.busy.add(key)
        r = self._run(e, i)
        self.busy.discard(key)
        self.memo[key] = r
        self.nodes += 1
        return r

    def _run(self, e, i):
        t = e[0]
        inp = self.inp
        if t == "lit":
            s = e[1]
            if i + len(s) > inp.n:
                return {}, True
            c = True
            for k, v in enumerate(s):
                c = AND(c, inp.is_byte(i + k, v))
                if c is False:
                    break
            ends = {}
            add(ends, i + len(s), c)
            return ends, NOT(c)
        if t == "cls":
            if i >= inp.n:
                return {}, True
            c = inp.in_ranges(i, e[1])
            ends = {}
            add(ends, i + 1, c)
            return ends, NOT(c)
        if t == "any":
            if i >= inp.n:
                return {}, True
            return {i + 1: True}, False
        if t == "fail":
            return {}, True
        if t == "call":
            if e[1] not in self.rules:
                raise RuntimeError("unknown rule %s" % e[1])
            return self.run(self.rules[e[1]], i)
        if t == "seq":
            cur = {i: True}
            fail = False
            for sub in e[1]:
                new = {}
                for j, c in cur.items():
                    ends, f = self.run(sub, j)
                    fail = OR(fail, AND(c, f))
                    for k, ck in ends.items():
                        add(new, k, AND(c, ck))
                cur = new
                if not cur:
                    break
            return cur, fail
        if t == "alt":
            ends = {}
            rem = True
            for sub in e[1]:
                if rem is False:
                    break
                se, sf = self.run(sub, i)
                for k, ck in se.items():
                    add(ends, k, AND(rem, ck))
                rem = AND(rem, sf)
            return ends, rem
        if t == "opt":
            se, sf = self.run(e[1], i)
            ends = dict(se)
            add(ends, i, sf)
            return ends, False
        if t == "not":
            se, sf = self.run(e[1], i)
            ends = {}
            add(ends, i, sf)
            return ends, NOT(sf)
        if t == "and":
            se, sf = self.run(e[1], i)
            ends = {}
            add(ends, i, NOT(sf))
            return ends, sf
        if t == "star":
            return self.star(e[1], i), False
        if t == "plus":
            se, sf = self.run(e[1], i)
            ends = {}
            for j, c in se.items():
                if j == i:
                    self.diverge = OR(self.diverge, c)
                    continue
                for k, ck in self.star(e[1], j).items():
                    add(ends, k, AND(c, ck))
            return ends, sf
        if t == "sep":
            _, el, sep, mn = e
            se, sf = self.run(el, i)
            ends = {}
            if mn == 0:
                add(ends, i, sf)
            for j, c in se.items():
                for k, ck in self.sep_rest(el, sep, j, i).items():
                    add(ends, k, AND(c, ck))
            return ends, (sf if mn else False)
        raise RuntimeError("node %s" % t)

    def star(self, e, i):
        key = ("star", id(e), i)
        if key in self.memo:
            return self.memo[key]
        se, sf = self.run(e, i)
        ends = {}
        add(ends, i, sf)
        for j, c in se.items():
            if j == i:
                # rust-peg would loop forever here; recorded, and the loop is cut
                self.diverge = OR(self.diverge, c)
                continue
            for k, ck in self.star(e, j).items():
                add(ends, k, AND(c, ck))
        self.memo[key] = ends
        return ends

    def sep_rest(self, el, sep, j, start):
        """after at least one element ending at j: (sep el)* with back-off to j when sep matches
        but el does not"""
        key = ("sep", id(el), id(sep), j)
        if key in self.memo:
            return self.memo[key]
        ends = {}
        pe, pf = self.run(sep, j)
        stay = pf
        for s, cs in pe.items():
            ee, ef = self.run(el, s)
            stay = OR(stay, AND(cs, ef))
            for k, ck in ee.items():
                if k == j:
                    self.diverge = OR(self.diverge, AND(cs, ck))
                    continue
                for k2, c2 in self.sep_rest(el, sep, k, start).items():
                    add(ends, k2, AND(AND(cs, ck), c2))
        add(ends, j, stay)
        self.memo[key] = ends
        return ends

    def accepts(self, start_rule):
        ends, _ = self.run(self.rules[start_rule], 0)
        return ends.get(self.inp.n, False)


class Decl:
    """declarative reading: run(e, i) = {j: condition that s[i..j) is in L(e)}"""

    def __init__(self, rules, inp):
        self.rules = rules
        self.inp = inp
        self.memo = {}
        self.busy = set()

    def run(self, e, i):
        key = (id(e), i)
        if key in self.memo:
            return self.memo[key]
        if key in self.busy:
            raise RuntimeError("left recursion in the reference grammar")
        self.busy.add(key)
        r = self._run(e, i)
        self.busy.discard(key)
        self.memo[key] = r
        return r

    def _run(self, e, i):
        t = e[0]
        inp = self.inp
        ends = {}
        if t == "lit":
            s = e[1]
            if i + len(s) <= inp.n:
                c = True
                for k, v in enumerate(s):
                    c = AND(c, inp.is_byte(i + k, v))
                add(ends, i + len(s), c)
        elif t == "cls":
            if i < inp.n:
                add(ends, i + 1, inp.in_ranges(i, e[1]))
        elif t == "ncls":
            # any ASCII byte not in the ranges
            if i < inp.n:
                add(ends, i + 1, NOT(inp.in_ranges(i, e[1])))
        elif t == "call":
            return self.run(self.rules[e[1]], i)
        elif t == "seq":
            cur = {i: True}
            for sub in e[1]:
                new = {}
                for j, c in cur.items():
                    for k, ck in self.run(sub, j).items():
                        add(new, k, AND(c, ck))
                cur = new
            ends = cur
        elif t == "alt":
            for sub in e[1]:
                for k, ck in self.run(sub, i).items():
                    add(ends, k, ck)
        elif t == "opt":
            ends = dict(self.run(e[1], i))
            add(ends, i, True)
        elif t == "star":
            ends = self.star(e[1], i)
        elif t == "plus":
            for j, c in self.run(e[1], i).items():
                if j == i:
                    for k, ck in self.star(e[1], i).items():
                        add(ends, k, AND(c, ck))
                    continue
                for k, ck in self.star(e[1], j).items():
                    add(ends, k, AND(c, ck))
        else:
            raise RuntimeError("reference node %s" % t)
        return ends

    def star(self, e, i):
        key = ("star", id(e), i)
        if key in self.memo:
            return self.memo[key]
        ends = {i: True}
        for j, c in self.run(e, i).items():
            if j == i:
                continue
            for k, ck in self.star(e, j).items():
                add(ends, k, AND(c, ck))
        self.memo[key] = ends
        return ends

    def accepts(self, start_rule):
        return self.run(self.rules[start_rule], 0).get(self.inp.n, False)
