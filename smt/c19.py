#!/usr/bin/env python3
"""C19 (reduced): the certification service never lets a deviating step pass.

  c19.py --repo DIR --instance NAME --out FILE [--timeout S]

The MIR of the varlink-certification binary is dumped from DIR on every run and these functions are
executed symbolically (mirsym.py), their callees replaced by contract models:

  c19_client_state   ClientIds::check_client_id on a table of two clients with symbolic ids and states
  c19_wrapper        CertInterface::check_client_id hands its arguments to the table unchanged
  c19_step_<name>    the step implementation <name> (test01..test07, end) on a symbolic request: flags
                     more/oneway/upgrade each absent/false/true, method, parameters present or not,
                     whether they deserialize, whether they equal the canonical value, and whether the
                     client-id check passes are z3 variables

On every returning path z3 is asked `path condition and not property`."""
import argparse
import json
import os
import re
import subprocess
import sys
import time

sys.path.insert(0, os.path.dirname(os.path.abspath(__file__)))
import z3  # noqa: E402
import mirsym as ms  # noqa: E402
from mirsym import Unsupported  # noqa: E402

SCRATCH = os.environ.get("VERIF_SCRATCH", "/var/tmp/varlink-verif")
IMPL = r"<impl at varlink-certification/src/main\.rs[^>]*>"

# the certification sequence (reference, fixed here): step -> (client state required, state afterwards, call mode)
STEPS = {
    "test01": ("Test01", "Test02", "normal"), "test02": ("Test02", "Test03", "normal"),
    "test03": ("Test03", "Test04", "normal"), "test04": ("Test04", "Test05", "normal"),
    "test05": ("Test05", "Test06", "normal"), "test06": ("Test06", "Test07", "normal"),
    "test07": ("Test07", "Test08", "normal"), "test08": ("Test08", "Test09", "normal"),
    "test09": ("Test09", "Test10", "normal"), "test10": ("Test10", "Test11", "more"),
    "test11": ("Test11", "End", "oneway"), "end": ("End", "End", "normal"),
}


def method_of(step):
    return "org.varlink.certification." + (step[0].upper() + step[1:])


def dump_mir(repo):
    crate = os.path.join(repo, "varlink-certification")
    os.utime(os.path.join(crate, "src", "main.rs"))
    env = dict(os.environ)
    env.update({"CARGO_NET_OFFLINE": "true", "CARGO_TARGET_DIR": os.path.join(SCRATCH, "mir-tgt")})
    p = subprocess.run(["cargo", "+nightly", "rustc", "--offline", "--bin", "varlink-certification", "--",
                        "-Zunpretty=mir", "-C", "debug-assertions=off"], cwd=crate, env=env,
                       stdout=subprocess.PIPE, stderr=subprocess.PIPE, text=True, timeout=1500)
    if p.returncode != 0 or "fn " not in p.stdout:
        raise Unsupported("MIR dump failed: %s" % p.stderr[-400:])
    return p.stdout


class Strings:
    """string values are z3 Ints; constants are interned"""

    def __init__(self):
        self.ids = {}

    def val(self, x):
        if isinstance(x, str):
            if x not in self.ids:
                self.ids[x] = 1000 + len(self.ids)
            return z3.IntVal(self.ids[x])
        if z3.is_int(x):
            return x
        raise Unsupported("string value %r" % (x,))


def events(path):
    if "__events" not in path.locals:
        path.locals["__events"] = ms.VecV()
    return path.locals["__events"].items


RESULTS = []


def result_enum(tag):
    d = z3.Int(tag)
    RESULTS.append(d)
    return ms.Enum(d, {"Ok": ms.Struct({0: ms.Opaque(tag + ".ok")}), "Err": ms.Struct({0: ms.Opaque(tag + ".err")})})


class Ctx:
    def __init__(self):
        self.strs = Strings()
        self.n = 0

    def fresh(self, base):
        self.n += 1
        return "%s%d" % (base, self.n)


def models_for(ctx):
    S = ctx.strs

    def m_identity(ex, path, a):
        return a[0]

    def m_load(ex, path, a):
        return ex.load(path, a[0])

    def m_check_client_id(ex, path, a):
        events(path).append(("cid", S.val(ex.load(path, a[1])) if not isinstance(ex.load(path, a[1]), ms.Opaque) else None,
                             a[2], a[3]))
        return z3.Bool("cid_ok")

    def m_get_request(ex, path, a):
        return ms.some(ms.Ref("__req", ()))

    def m_unwrap(ex, path, a):
        v = a[0]
        if isinstance(v, ms.Enum) and v.discr == 1 and "Some" in v.payloads:
            return v.payloads["Some"].f[0]
        if isinstance(v, ms.Enum) and v.discr == 0 and "Ok" in v.payloads:
            return v.payloads["Ok"].f[0]
        if isinstance(v, ms.Ref) or isinstance(v, ms.Struct):
            return v
        raise Unsupported("unwrap of %r" % (v,))

    def m_to_value(ex, path, a):
        return result_enum(ctx.fresh("to_value"))

    def m_from_value(ex, path, a):
        d = z3.Int("parse")
        return ms.Enum(d, {"Ok": ms.Struct({0: ms.Struct({}, "parsed")}), "Err": ms.Struct({0: ms.Opaque("serde error")})})

    def m_branch(ex, path, a):
        r = a[0]
        if not isinstance(r, ms.Enum):
            raise Unsupported("Try::branch on %r" % (r,))
        return ms.Enum(r.discr, {"Continue": ms.Struct({0: r.payloads.get("Ok", ms.Struct({0: ms.Opaque("ok")})).f.get(0)}),
                                 "Break": ms.Struct({0: ms.Enum(1, {"Err": r.payloads.get("Err", ms.Struct({0: ms.Opaque("e")}))})})})

    def m_from_residual(ex, path, a):
        return ms.Enum(1, {"Err": ms.Struct({0: ms.Opaque("error")})})

    def m_args_eq(ex, path, a):
        if os.environ.get("C19_PROBE"):
            def show(v, d=0):
                if isinstance(v, ms.Ref):
                    return "Ref(%s,%s)->" % (v.local, v.proj) + show(ex.load(path, v), d + 1)
                if isinstance(v, ms.Struct):
                    return "Struct{" + ", ".join("%s: %s" % (k, show(x, d + 1)) for k, x in v.f.items()) + "}"
                if isinstance(v, ms.Enum):
                    return "Enum(%s)" % (v.discr,)
                if isinstance(v, ms.Opaque):
                    return "Opaque(%s)" % v.what
                return repr(v)
            sys.stderr.write("ARGS_EQ %s || %s\n" % (show(a[0]), show(a[1])))
        # the expected value must be a constant of the step (client_id apart): a leaf taken from the request's own
        # parameters makes `equal` say nothing about that parameter
        def leaves(v, depth=0):
            if depth > 6:
                return
            if isinstance(v, ms.Ref):
                yield from leaves(ex.load(path, v), depth + 1)
            elif isinstance(v, ms.Struct):
                for x in v.f.values():
                    yield from leaves(x, depth + 1)
            elif isinstance(v, ms.Enum):
                for pl in v.payloads.values():
                    yield from leaves(pl, depth + 1)
            else:
                yield v
        for side in (a[0], a[1]):
            for lf in leaves(side):
                dep = (isinstance(lf, ms.Opaque) and re.match(r"arg\d+$", str(lf.what))) or \
                      (z3.is_expr(lf) and not z3.eq(lf, z3.Int("arg0")) and "arg" in str(lf))
                if dep:
                    events(path).append(("expected_depends", str(lf.what) if isinstance(lf, ms.Opaque) else str(lf)))
        return z3.Bool("args_equal")

    def m_str_eq(ex, path, a):
        x = ex.load(path, ex.load(path, a[0]))
        y = ex.load(path, ex.load(path, a[1]))
        return S.val(x) == S.val(y)

    def m_str_ne(ex, path, a):
        x = ex.load(path, ex.load(path, a[0]))
        y = ex.load(path, ex.load(path, a[1]))
        return S.val(x) != S.val(y)

    def reply(kind):
        def m(ex, path, a):
            events(path).append((kind,))
            return result_enum(ctx.fresh("io"))
        return m

    def m_get_mut(ex, path, a):
        ref = a[0]
        key = S.val(ex.load(path, a[1]))
        table = ex.load(path, ref)
        if not isinstance(table, ms.Struct) or table.tag != "table":
            raise Unsupported("get_mut on %r" % (table,))
        alts = []
        keys = [S.val(table.f[i].f[0]) for i in sorted(table.f)]
        for i in sorted(table.f):
            def eff(q, args, i=i):
                r = args[0]
                return ms.some(ms.Ref(r.local, r.proj + (i, 1)))
            alts.append((keys[i] == key, eff))
        alts.append((z3.And(*[k != key for k in keys]) if keys else True, lambda q, args: ms.none()))
        return ms.Fork(alts)

    def m_mem_replace(ex, path, a):
        old = ex.load(path, a[0])
        if not isinstance(a[0], ms.Ref):
            raise Unsupported("mem::replace target %r" % (a[0],))
        ex.write(path, a[0].local, a[0].proj, a[1])
        return old

    def m_timeout(ex, path, a):
        return ms.Opaque("()")

    def m_inner_check(ex, path, a):
        events(path).append(("inner", a[0], a[1], a[2], a[3]))
        return z3.Bool("inner_result")

    def m_opaque(ex, path, a):
        return ms.Opaque("value")

    def m_new_mytype(ex, path, a):
        return result_enum(ctx.fresh("new_mytype"))

    def m_set_continues(ex, path, a):
        events(path).append(("continues", a[1]))
        return ms.Opaque("()")

    def m_range_next(ex, path, a):
        r = ex.load(path, a[0])
        if not isinstance(r, ms.Struct) or not isinstance(r.f.get(0), int) or not isinstance(r.f.get(1), int):
            raise Unsupported("Range::next on %r" % (r,))
        if r.f[0] < r.f[1]:
            r.f[0] += 1
            return ms.some(r.f[0] - 1)
        return ms.none()

    return [
        (r"^HashMap::<std::string::String, std::string::String>::(new|insert)$", m_opaque),
        (r"^HashSet::<std::string::String>::insert$", m_opaque),
        (r"^StringHashSet::new$", m_opaque),
        (r"^Vec::<std::string::String>::(new|push)$", m_opaque),
        (r"^<StringHashSet as DerefMut>::deref_mut$", m_identity),
        (r"Argument::<'_>::new_display::<.*>$", m_opaque),
        (r"^Arguments::<'_>::new::<.*>$", m_opaque),
        (r"^format$", m_opaque),
        (r"^must_use::<.*>$", m_identity),
        (r"^new_mytype$", m_new_mytype),
        (r"as CallTrait>::set_continues$", m_set_continues),
        (r"<std::ops::Range<i32> as IntoIterator>::into_iter$", m_identity),
        (r"<std::ops::Range<i32> as Iterator>::next$", m_range_next),
        (r"^CertInterface::check_client_id$", m_check_client_id),
        (r"^ClientIds::check_client_id$", m_inner_check),
        (r"^ClientIds::check_lifetime_timeout$", m_timeout),
        (r"as CallTrait>::get_request$", m_get_request),
        (r"Option::<.*>::unwrap$", m_unwrap),
        (r"Result::<.*RwLockWriteGuard.*>::unwrap$", m_unwrap),
        (r"^to_value::<.*>$", m_to_value),
        (r"^from_value::<.*>$", m_from_value),
        (r"Result::<.*>::map_err::<.*>$", m_identity),
        (r"as Try>::branch$", m_branch),
        (r"as FromResidual<.*>>::from_residual$", m_from_residual),
        (r"<org_varlink_certification::\w+_Args as PartialEq>::eq$", m_args_eq),
        (r"<&Cow<'_, str> as PartialEq<&str>>::eq$", m_str_eq),
        (r"<(&?std::string::String|&?str|&Cow<'_, str>) as PartialEq<.*>>::ne$", m_str_ne),
        (r"<(&?std::string::String|&?str) as PartialEq<.*>>::eq$", m_str_eq),
        (r"<Value as Clone>::clone$", m_load),
        (r"<&str as Into<.*>>::into$", m_identity),
        (r"<std::string::String as Deref>::deref$", m_identity),
        (r"VarlinkCallError>::reply_client_id_error$", reply("client_id_error")),
        (r"VarlinkCallError>::reply_certification_error$", reply("certification_error")),
        (r"VarlinkCallError>::reply_invalid_parameter$", reply("invalid_parameter")),
        (r"as org_varlink_certification::Call_\w+>::reply$", reply("success")),
        (r"HashMap::<.*>::get_mut::<str>$", m_get_mut),
        (r"^std::mem::(replace|swap)::<.*>$", m_mem_replace),
        (r"<Arc<.*> as Deref>::deref$", m_identity),
        (r"RwLock::<ClientIds>::write$", m_identity),
        (r"as DerefMut>::deref_mut$", m_identity),
    ]


MODEL_DOC = [
    "MIR symbolic execution (smt/mirsym.py); callees are replaced by contract models:",
    "CertInterface::check_client_id (in the step functions) -> a free boolean `cid_ok`, its arguments recorded; the function "
    "itself is the subject of c19_wrapper / c19_client_state",
    "CallTrait::get_request -> Some(the symbolic request) (a server-side call always carries its request)",
    "serde_json::to_value -> Ok or Err (free); Result::map_err / Try::branch / FromResidual::from_residual -> the `?` contract",
    "serde_json::from_value::<Args> -> Ok(parsed) or Err (free `parse`); <Args as PartialEq>::eq(canonical, parsed) -> free `args_equal`",
    "<&Cow<str> as PartialEq<&str>>::eq, <String as PartialEq<&str>>::ne -> equality of string values",
    "Call_*::reply / reply_client_id_error / reply_certification_error -> recorded as the reply event; Ok or Err (free)",
    "HashMap<String, TestContext>::get_mut(key) -> Some(&mut the entry whose key equals `key`) else None, one successor per case",
    "ClientIds::check_lifetime_timeout -> no effect (no client expires during the step: time is not advanced)",
    "Arc::deref, RwLock::write, Result::unwrap on the guard, DerefMut -> the guarded value (no poisoning)",
]


def opt_bool(name):
    d = z3.Int(name + "_present")
    return ms.Enum(d, {"Some": ms.Struct({0: z3.Bool(name + "_value")})}), d, z3.Bool(name + "_value")


def run_step(step, mir, ctx, solver, timeout_s, t0):
    test, nxt, mode = STEPS[step]
    params, blocks = ms.find_function(mir, IMPL + "::" + step)
    if len(params) < 3:
        raise Unsupported("%s takes %d parameters" % (step, len(params)))
    more, more_p, more_v = opt_bool("more")
    oneway, oneway_p, oneway_v = opt_bool("oneway")
    upgrade, upgrade_p, upgrade_v = opt_bool("upgrade")
    method = z3.Int("method")
    par_p = z3.Int("parameters_present")
    req = ms.Struct({0: more, 1: oneway, 2: upgrade, 3: method,
                     4: ms.Enum(par_p, {"Some": ms.Struct({0: ms.Opaque("parameters")})})}, "Request")
    base = [z3.And(d >= 0, d <= 1) for d in (more_p, oneway_p, upgrade_p, par_p)]
    base += [z3.Int("parse") >= 0, z3.Int("parse") <= 1]
    ex = ms.Exec(blocks, models_for(ctx), solver, base)
    ex.promoted = ms.find_promoted(mir, IMPL + "::" + step)
    init = {params[0]: ms.Opaque("self"), params[1]: ms.Ref("__call", ()), "__call": ms.Opaque("call"), "__req": req}
    for i, p in enumerate(params[2:]):
        init[p] = z3.Int("arg%d" % i) if i == 0 else ms.Opaque("arg%d" % i)
    # the MIR addresses Request fields by position: confirm the positions from the struct's own aggregate
    m = re.search(r"varlink::Request::<'_> \{ ([^}]*) \}", "\n".join(l for b in blocks.values() for l in b))
    if m:
        order = [f.split(":")[0].strip() for f in ms.split_top(m.group(1))]
        if order != ["more", "oneway", "upgrade", "method", "parameters"]:
            raise Unsupported("varlink::Request field order %r" % order)
    finished = ex.run(init)
    if not finished:
        raise Unsupported("no returning path")
    S = ctx.strs
    is_true = lambda p, v: z3.And(p == 1, v)  # noqa: E731
    if mode == "normal":
        flags_ok = z3.And(z3.Not(is_true(more_p, more_v)), z3.Not(is_true(oneway_p, oneway_v)), z3.Not(is_true(upgrade_p, upgrade_v)))
    elif mode == "more":
        flags_ok = z3.And(is_true(more_p, more_v), z3.Not(is_true(oneway_p, oneway_v)), z3.Not(is_true(upgrade_p, upgrade_v)))
    else:
        flags_ok = z3.And(is_true(oneway_p, oneway_v), z3.Not(is_true(more_p, more_v)), z3.Not(is_true(upgrade_p, upgrade_v)))
    canonical = z3.And(z3.Bool("cid_ok"), flags_ok, method == S.val(method_of(step)), par_p == 1,
                       z3.Int("parse") == 0, z3.Bool("args_equal"))
    queries = ex.queries
    failed = None
    seen = {"success": False, "error": False}

    def ask(pc, neg, label):
        nonlocal queries, failed
        solver.push(); solver.add(*base); solver.add(*pc); solver.add(neg)
        queries += 1
        r = solver.check()
        if r == z3.sat and failed is None:
            m = solver.model()
            ev = lambda t: m.eval(t, model_completion=True)  # noqa: E731
            failed = (label, {
                "cid_ok": bool(ev(z3.Bool("cid_ok"))),
                "more": None if ev(more_p).as_long() == 0 else bool(ev(more_v)),
                "oneway": None if ev(oneway_p).as_long() == 0 else bool(ev(oneway_v)),
                "upgrade": None if ev(upgrade_p).as_long() == 0 else bool(ev(upgrade_v)),
                "method_ok": ev(method).as_long() == S.ids.get(method_of(step)),
                "parameters": ev(par_p).as_long() == 1,
                "parse_ok": ev(z3.Int("parse")).as_long() == 0,
                "args_equal": bool(ev(z3.Bool("args_equal")))})
        solver.pop()
        if r == z3.unknown:
            raise Unsupported("solver gave no answer (%s)" % label)

    for path, ret in finished:
        if time.time() - t0 > timeout_s:
            raise Unsupported("time budget exhausted")
        evs = events(path)
        cids = [e for e in evs if e[0] == "cid"]
        replies = [e[0] for e in evs if e[0] != "cid"]
        pc = path.pc
        # the client-id / order check comes first, once, with this step's names
        if len(cids) != 1 or evs[0][0] != "cid":
            ask(pc, z3.BoolVal(True), "P:c19.client_id_checked_first_and_once")
        else:
            _, who, t, n = cids[0]
            if t != test or n != nxt:
                ask(pc, z3.BoolVal(True), "P:c19.step_checks_its_own_place_in_the_sequence")
            if who is not None:
                ask(pc, who != z3.Int("arg0"), "P:c19.client_id_of_the_request_is_checked")
        if any(e[0] == "expected_depends" for e in evs):
            ask(pc, z3.BoolVal(True), "P:c19.expected_value_is_a_constant_of_the_step")
        evs = [e for e in evs if e[0] != "expected_depends"]
        conts = [e for e in evs if e[0] == "continues"]
        replies = [e[0] for e in evs if e[0] not in ("cid", "continues")]
        # the function's own result is the literal Ok(()) (otherwise: whatever the last call returned)
        ret_ok = isinstance(ret, ms.Enum) and isinstance(ret.discr, int) and ret.discr == 0
        all_ok = z3.And(*[d == 0 for d in RESULTS]) if RESULTS else z3.BoolVal(True)
        if mode == "normal":
            if len(replies) > 1:
                ask(pc, z3.BoolVal(True), "P:c19.at_most_one_reply")
            success = replies == ["success"]
        elif mode == "more":
            success = len(replies) >= 1 and all(r == "success" for r in replies)
            if not success and "success" in replies:
                ask(pc, z3.BoolVal(True), "P:c19.at_most_one_reply")
            if success:
                # replies before the last carry continues=true, the last one continues=false
                flags, cur = [], False
                for e in evs:
                    if e[0] == "continues":
                        cur = e[1]
                    elif e[0] == "success":
                        flags.append(cur)
                if ret_ok and not (all(f is True for f in flags[:-1]) and flags[-1] is False):
                    ask(pc, z3.BoolVal(True), "P:c19.more_replies_end_with_a_final_reply")
        else:
            success = not replies and ret_ok
        if success:
            seen["success"] = True
            ask(pc, z3.Not(canonical), "P:c19.deviating_request_never_gets_the_success_reply")
        else:
            seen["error"] = seen["error"] or bool(replies)
            ask(pc, z3.And(canonical, all_ok), "P:c19.canonical_request_succeeds")
            if not replies and mode != "oneway":
                # no reply at all: only acceptable when the step fails (connection closed)
                if ret_ok:
                    ask(pc, z3.BoolVal(True), "P:c19.unanswered_step_closes_the_connection")
    return ex, finished, queries, failed, seen


def run_client_state(mir, ctx, solver):
    params, blocks = ms.find_function(mir, r"main\.rs[^>]*>::check_client_id", r"^_1: &mut ClientIds")
    S = ctx.strs
    ids = [z3.Int("id0"), z3.Int("id1")]
    st = [z3.Int("state0"), z3.Int("state1")]
    table = ms.Struct({i: ms.Struct({0: ids[i], 1: ms.Struct({0: st[i]}, "TestContext")}) for i in range(2)}, "table")
    self_ = ms.Struct({0: ms.Opaque("lifetimes"), 1: table, 2: ms.Opaque("max_lifetime")}, "ClientIds")
    cid, test, nxt = z3.Int("client_id"), z3.Int("test"), z3.Int("next_test")
    base = [ids[0] != ids[1]]
    ex = ms.Exec(blocks, models_for(ctx), solver, base)
    # field positions of ClientIds / TestContext as the MIR uses them: contexts = .1, test = .0
    finished = ex.run({params[0]: ms.Ref("__ids", ()), "__ids": self_, params[1]: cid, params[2]: test, params[3]: nxt})
    if not finished:
        raise Unsupported("no returning path")
    queries = ex.queries
    failed = None
    seen = {"success": False, "error": False}

    def ask(pc, neg, label):
        nonlocal queries, failed
        solver.push(); solver.add(*base); solver.add(*pc); solver.add(neg)
        queries += 1
        r = solver.check()
        if r == z3.sat and failed is None:
            m = solver.model()
            ev = lambda t: m.eval(t, model_completion=True).as_long()  # noqa: E731
            failed = (label, {"known": ev(cid) in (ev(ids[0]), ev(ids[1])),
                              "in_order": (ev(cid) == ev(ids[0]) and ev(st[0]) == ev(test)) or
                                          (ev(cid) == ev(ids[1]) and ev(st[1]) == ev(test))})
        solver.pop()
        if r == z3.unknown:
            raise Unsupported("solver gave no answer")

    for path, ret in finished:
        t2 = path.locals["__ids"].f[1]
        new = [t2.f[i].f[1].f[0] for i in range(2)]
        newk = [t2.f[i].f[0] for i in range(2)]
        expect = z3.Or(*[z3.And(ids[i] == cid, st[i] == test) for i in range(2)])
        if isinstance(ret, bool):
            seen["success" if ret else "error"] = True
            ask(path.pc, expect != z3.BoolVal(ret), "P:c19.step_admitted_iff_client_known_and_in_order")
        elif z3.is_bool(ret):
            for want, key in ((ret, "success"), (z3.Not(ret), "error")):
                solver.push(); solver.add(*base); solver.add(*path.pc); solver.add(want)
                seen[key] = seen[key] or solver.check() == z3.sat
                solver.pop()
            queries += 2
            ask(path.pc, expect != ret, "P:c19.step_admitted_iff_client_known_and_in_order")
        else:
            raise Unsupported("check_client_id returns %r" % (ret,))
        conds = []
        for i in range(2):
            hit = z3.And(ids[i] == cid, st[i] == test)
            conds.append(S.val(new[i]) == z3.If(hit, nxt, st[i]))
            conds.append(S.val(newk[i]) == ids[i])
        ask(path.pc, z3.Not(z3.And(*conds)), "P:c19.only_the_admitted_client_advances_to_the_next_step")
    return ex, finished, queries, failed, seen


def run_wrapper(mir, ctx, solver):
    params, blocks = ms.find_function(mir, r"main\.rs[^>]*>::check_client_id", r"^_1: &CertInterface")
    ex = ms.Exec(blocks, models_for(ctx), solver, [])
    a = [z3.Int("client_id"), z3.Int("test"), z3.Int("next_test")]
    inner = ms.Struct({}, "ClientIds")
    finished = ex.run({params[0]: ms.Ref("__self", ()), "__self": ms.Struct({0: ms.Ref("__ids", ())}, "CertInterface"),
                       "__ids": inner, params[1]: a[0], params[2]: a[1], params[3]: a[2]})
    failed = None
    for path, ret in finished:
        evs = [e for e in events(path) if e[0] == "inner"]
        ok = (len(evs) == 1 and all(evs[0][2 + i] is a[i] or (z3.is_int(evs[0][2 + i]) and evs[0][2 + i].eq(a[i])) for i in range(3))
              and z3.is_bool(ret) and ret.eq(z3.Bool("inner_result")))
        if not ok:
            failed = ("P:c19.wrapper_hands_the_check_to_the_table_unchanged", {})
    if not finished:
        raise Unsupported("no returning path")
    return ex, finished, ex.queries + len(finished), failed, {"success": True, "error": True}


def run_instance(name, repo, timeout_s):
    t0 = time.time()
    mir = dump_mir(repo)
    ctx = Ctx()
    solver = z3.Solver()
    solver.set("timeout", max(1000, int(timeout_s * 1000 / 4)))
    if name == "c19_client_state":
        ex, finished, queries, failed, seen = run_client_state(mir, ctx, solver)
        labels = ["P:c19.step_admitted_iff_client_known_and_in_order", "P:c19.only_the_admitted_client_advances_to_the_next_step"]
    elif name == "c19_wrapper":
        ex, finished, queries, failed, seen = run_wrapper(mir, ctx, solver)
        labels = ["P:c19.wrapper_hands_the_check_to_the_table_unchanged"]
    else:
        step = name[len("c19_step_"):]
        if step not in STEPS:
            raise Unsupported("unknown step %s" % step)
        ex, finished, queries, failed, seen = run_step(step, mir, ctx, solver, timeout_s, t0)
        labels = ["P:c19.client_id_checked_first_and_once", "P:c19.step_checks_its_own_place_in_the_sequence",
                  "P:c19.client_id_of_the_request_is_checked", "P:c19.at_most_one_reply",
                  "P:c19.deviating_request_never_gets_the_success_reply", "P:c19.canonical_request_succeeds",
                  "P:c19.unanswered_step_closes_the_connection", "P:c19.expected_value_is_a_constant_of_the_step"]
    res = {"verdict": "pass", "reason": "", "checks_failed": [], "playback": [], "failed_labels": [],
           "checks_total": queries, "verification_time_s": round(time.time() - t0, 2), "oracle_ok": [], "covers": [],
           "covers_unsat": []}
    if failed:
        label, wit = failed
        if "expected_value_is_a_constant" in label:
            step = name[len("c19_step_"):]
            mo = (2 if step == "test10" else 0, 2 if step == "test11" else 0)
            res.update(verdict="violation", failed_labels=[label], witness=wit,
                       playback=[[[0, 1, mo[0], mo[1], 0, 1, 1, 1, 0, pick]] for pick in range(6)])
        else:
            res.update(verdict="violation", failed_labels=[label], witness=wit, playback=[[encode_witness(name, wit, label)]])
    else:
        res["oracle_ok"] = labels
        res["covers"] = [{"desc": "a path that admits / answers with the success reply", "status": "SATISFIED" if seen["success"] else "UNSATISFIABLE"},
                         {"desc": "a path that refuses / answers with an error reply", "status": "SATISFIED" if seen["error"] else "UNSATISFIABLE"}]
        res["covers_unsat"] = [c["desc"] for c in res["covers"] if c["status"] != "SATISFIED"]
        if res["covers_unsat"]:
            res.update(verdict="inconclusive", reason="vacuous: cover not satisfied: %s" % res["covers_unsat"])
    res["detail"] = {"paths": len(finished), "models_used": sorted(ex.models_used)}
    return res


def tri(v):
    return 0 if v is None else (2 if v else 1)


def encode_witness(name, w, label=""):
    """witness -> byte list for the native replayer: [kind, cid_ok, more, oneway, upgrade, method_ok, parameters, parse_ok, args_equal]"""
    if name == "c19_client_state":
        if "advances" in label:
            return [4]
        return [1, 1 if w.get("known") else 0, 1 if w.get("in_order") else 0]
    if name == "c19_wrapper":
        return [2]
    if "place_in_the_sequence" in label or "checked_first" in label or "end_with_a_final_reply" in label:
        # shows natively as the canonical sequence breaking at this step or the one after it
        return [3]
    return [0, 1 if w["cid_ok"] else 0, tri(w["more"]), tri(w["oneway"]), tri(w["upgrade"]), 1 if w["method_ok"] else 0,
            1 if w["parameters"] else 0, 1 if w["parse_ok"] else 0, 1 if w["args_equal"] else 0]


def main():
    ap = argparse.ArgumentParser()
    ap.add_argument("--repo", required=True)
    ap.add_argument("--instance", required=True)
    ap.add_argument("--out", required=True)
    ap.add_argument("--replayer")
    ap.add_argument("--timeout", type=int, default=900)
    a = ap.parse_args()
    t0 = time.time()
    try:
        res = run_instance(a.instance, a.repo, a.timeout)
    except Unsupported as e:
        res = {"verdict": "inconclusive", "reason": "outside the MIR reader / the callee models: %s" % e,
               "checks_total": 0, "checks_failed": [], "oracle_ok": [], "covers": [], "covers_unsat": [],
               "verification_time_s": None, "playback": []}
    except Exception as e:  # noqa
        import traceback
        res = {"verdict": "inconclusive", "reason": "executor error: %s" % e, "trace": traceback.format_exc(),
               "checks_total": 0, "checks_failed": [], "oracle_ok": [], "covers": [], "covers_unsat": [],
               "verification_time_s": None, "playback": []}
    res["wall_s"] = round(time.time() - t0, 1)
    res["harness"] = a.instance
    with open(a.out, "w") as fh:
        json.dump(res, fh, indent=1)
    print(json.dumps({k: v for k, v in res.items() if k not in ("detail",)}))


if __name__ == "__main__":
    main()
