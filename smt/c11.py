#!/usr/bin/env python3
"""C11 / C12 solver checks on the peg grammar of /repo (see DESIGN.md, section 3/C11).

  c11.py --repo DIR --instance NAME --out FILE [--replayer BIN] [--timeout S]

The grammar text is read from DIR/varlink_parser/src/varlink_grammar.rs on every run, turned into
its bounded PEG encoding (enc.Peg) and compared by z3 with the declarative reading of the fixed
reference grammar (varlink_ref.py, enc.Decl) over *every* ASCII text of the instance's shape:
   prefix (constant) + k symbolic bytes (k = 0..kmax) + suffix (constant).
unsat for every k  = the two languages agree on all texts of that shape;
sat                 = a concrete text on which they differ, handed to the native replayer."""
import argparse
import json
import os
import re
import subprocess
import sys
import tempfile
import time

sys.path.insert(0, os.path.dirname(os.path.abspath(__file__)))
import z3  # noqa: E402
import enc  # noqa: E402
import pegsrc  # noqa: E402
import varlink_ref  # noqa: E402

GRAMMAR = "varlink_parser/src/varlink_grammar.rs"
START = "ParseInterface"

from c11_instances import INSTANCES  # noqa: E402


def load_rules(repo):
    return pegsrc.load(os.path.join(repo, GRAMMAR))


def concrete_verdicts(rules, text_bytes):
    cells = list(text_bytes)
    inp = enc.Input(cells)
    peg = enc.Peg(rules, inp)
    a = peg.accepts(START)
    ref = enc.Decl(varlink_ref.RULES, enc.Input(cells)).accepts(varlink_ref.START)
    assert isinstance(a, bool) and isinstance(ref, bool)
    return a, ref, peg.diverge


def run_instance(name, repo, timeout_s):
    prefix, kmax, suffix, what, _tiers, mode = INSTANCES[name]
    rules, order = load_rules(repo)
    t0 = time.time()
    queries = 0
    solver_time = 0.0
    oracle_ok = []
    covers = []
    res = {"verdict": "pass", "reason": "", "checks_failed": [], "playback": [], "failed_labels": []}
    both_accept = False
    both_reject = False
    stats = []
    for k in range(kmax + 1):
        sym = [z3.BitVec("b%d" % i, 8) for i in range(k)]
        cells = list(prefix.encode()) + sym + list(suffix.encode())
        inp = enc.Input(cells)
        peg = enc.Peg(rules, inp)
        a_impl = peg.accepts(START)
        a_ref = enc.Decl(varlink_ref.RULES, inp).accepts(varlink_ref.START)
        base = [z3.ULE(b, 127) for b in sym]

        def check(extra, label):
            nonlocal queries, solver_time
            s = z3.Solver()
            left = timeout_s - (time.time() - t0)
            if left <= 0:
                return "unknown", None
            s.set("timeout", int(left * 1000))
            s.add(*base)
            s.add(extra)
            t1 = time.time()
            r = s.check()
            solver_time += time.time() - t1
            queries += 1
            if r == z3.sat:
                m = s.model()
                return "sat", bytes(list(prefix.encode()) +
                                    [m.eval(b, model_completion=True).as_long() for b in sym] +
                                    list(suffix.encode()))
            return ("unsat" if r == z3.unsat else "unknown"), None

        def as_term(c):
            return z3.BoolVal(c) if isinstance(c, bool) else c

        # 1. the languages agree (mode "progress": only the termination question is asked, for C12)
        diff = z3.Xor(as_term(a_impl), as_term(a_ref)) if mode == "lang" else z3.BoolVal(False)
        r, w = check(diff, "agree")
        if r == "unknown":
            res.update(verdict="inconclusive", reason="z3 gave no answer for k=%d within %ds" % (k, timeout_s))
            break
        if r == "sat":
            ci, cr, _ = concrete_verdicts(rules, w)
            if ci == cr:
                res.update(verdict="inconclusive",
                           reason="model %r does not evaluate to a difference (encoder error)" % w)
                break
            lab = ("P:c11.accepted_text_is_in_the_grammar" if ci else "P:c11.text_of_the_grammar_is_accepted")
            res.update(verdict="violation", failed_labels=[lab],
                       playback=[[[1 if cr else 0] + list(w)]],
                       witness=w.decode("latin-1"))
            break
        # 2. no repetition in the grammar can match the empty string (rust-peg would not terminate)
        if peg.diverge is not False:
            r, w = check(as_term(peg.diverge), "progress")
            if r == "unknown":
                res.update(verdict="inconclusive", reason="z3 gave no answer (progress) for k=%d" % k)
                break
            if r == "sat":
                res.update(verdict="violation", failed_labels=["P:c12.every_repetition_consumes_input"],
                           playback=[[[2] + list(w)]], witness=w.decode("latin-1"))
                break
        # vacuity witnesses: texts of this shape exist on both sides of the language
        if not both_accept and a_impl is not False:
            r, w = check(z3.And(as_term(a_impl), as_term(a_ref)), "cover-accept")
            both_accept = both_accept or r == "sat"
        if not both_reject:
            r, w = check(z3.And(z3.Not(as_term(a_impl)), z3.Not(as_term(a_ref))), "cover-reject")
            both_reject = both_reject or r == "sat"
        stats.append({"k": k, "peg_nodes": peg.nodes})
    if res["verdict"] == "pass":
        oracle_ok = ["P:c12.every_repetition_consumes_input"]
        if mode == "lang":
            oracle_ok += ["P:c11.accepted_text_is_in_the_grammar", "P:c11.text_of_the_grammar_is_accepted"]
        covers = [{"desc": "some text of this shape is accepted by both", "status": "SATISFIED" if both_accept else "UNSATISFIABLE"},
                  {"desc": "some text of this shape is rejected by both", "status": "SATISFIED" if both_reject else "UNSATISFIABLE"}]
        if mode != "lang":
            # the termination question does not need an accepted text (none is that short for the free shape)
            covers = covers[1:]
        unsat = [c["desc"] for c in covers if c["status"] != "SATISFIED"]
        if unsat:
            res.update(verdict="inconclusive", reason="vacuous: cover not satisfied: %s" % unsat)
    res.update({
        "checks_total": queries, "oracle_ok": oracle_ok, "covers": covers,
        "covers_unsat": [c["desc"] for c in covers if c["status"] != "SATISFIED"],
        "verification_time_s": round(solver_time, 2),
        "detail": {"prefix": prefix, "kmax": kmax, "suffix": suffix, "symbolic": what,
                   "rules_read": order, "per_k": stats},
    })
    return res


# ------------------------------------------------------------------ translator validation

def rust_literals(src):
    """string literals passed to IDL::try_from / from_string in the repo's own tests"""
    out = []
    for m in re.finditer(r'(?:try_from|from_string)\(\s*"((?:[^"\\]|\\.)*)"', src, re.S):
        body = re.sub(r"\\\n\s*", "", m.group(1))
        try:
            out.append(pegsrc.unescape(body))
        except Exception:
            pass
    for m in re.finditer(r'(?:try_from|from_string)\(\s*r#"(.*?)"#', src, re.S):
        out.append(m.group(1))
    return out


def corpus(repo):
    texts = []
    tp = os.path.join(repo, "varlink_parser/src/test.rs")
    if os.path.exists(tp):
        texts += rust_literals(open(tp).read())
    for dp, dn, fn in os.walk(repo):
        dn[:] = [d for d in dn if d not in ("target", ".git")]
        for f in fn:
            if f.endswith(".varlink"):
                try:
                    texts.append(open(os.path.join(dp, f)).read())
                except (OSError, UnicodeDecodeError):
                    pass
    texts += ["", "interface a.b\ntype T()", "interface a-.b\ntype T()", "interface aB.c\ntype T()",
              "interface a.b\ntype T() # c\ntype U()", "interface a.b\ntype T()# c\ntype U()",
              "interface a.b\ntype T (a ,b)", "interface a.b\ntype T(a,b)", "# x\ninterface a.b\nerror E()\n\n",
              "interface a.b\ntype T(a:?[]?[string](x,y))", "interface a.b\ntype T(a:??int)",
              "interface a.b\r\nmethod M()->()\r", "interface a.b\ttype T()", "interface a.b\ntype T()type U()"]
    texts = [t for t in texts if all(ord(c) < 128 for c in t)]
    # single-edit neighbours of the short ones (reject paths)
    extra = []
    for t in texts:
        if len(t) > 80:
            continue
        for i in range(0, len(t), 3):
            extra.append(t[:i] + t[i + 1:])
            extra.append(t[:i] + "-" + t[i:])
            extra.append(t[:i] + " " + t[i:])
    seen = set()
    out = []
    for t in texts + extra:
        if t not in seen:
            seen.add(t)
            out.append(t)
    return out


def run_validation(repo, replayer):
    rules, order = load_rules(repo)
    texts = corpus(repo)
    with tempfile.NamedTemporaryFile("w", suffix=".hex", delete=False) as fh:
        for t in texts:
            fh.write(t.encode().hex() + "\n")
        path = fh.name
    try:
        p = subprocess.run([replayer, "c11_batch", path], stdout=subprocess.PIPE, stderr=subprocess.DEVNULL,
                           text=True, timeout=600)
    finally:
        os.unlink(path)
    native = p.stdout.split("\n")[:len(texts)]
    res = {"verdict": "pass", "reason": "", "checks_failed": [], "playback": [], "failed_labels": [],
           "oracle_ok": [], "covers": [], "covers_unsat": [], "verification_time_s": 0.0}
    if len(native) != len(texts) or any(v not in ("O", "I", "P") for v in native):
        res.update(verdict="inconclusive", reason="native parser gave %d usable verdicts for %d texts" % (
            sum(v in ("O", "I", "P") for v in native), len(texts)))
        res["checks_total"] = 0
        return res
    mism = []
    acc = 0
    refdiff = []
    for t, v in zip(texts, native):
        a, r, div = concrete_verdicts(rules, t.encode())
        real = v in ("O", "I")
        acc += real
        if a != real:
            mism.append((t, v, a))
        if r != real:
            refdiff.append((t, v, r))
    res["checks_total"] = len(texts)
    res["detail"] = {"texts": len(texts), "accepted_by_the_real_parser": acc,
                     "encoding_vs_real_parser_mismatches": len(mism),
                     "reference_vs_real_parser_differences_in_corpus": [repr(x[0]) for x in refdiff[:5]]}
    if mism:
        res.update(verdict="inconclusive",
                   reason="the PEG encoding disagrees with the real parser on %d of %d corpus texts, e.g. %r "
                          "(real %s, encoding %s): translator invalid, nothing it says is used" % (
                              len(mism), len(texts), mism[0][0], mism[0][1], mism[0][2]))
        return res
    if acc == 0 or acc == len(texts):
        res.update(verdict="inconclusive", reason="corpus does not exercise both verdicts")
        return res
    res["oracle_ok"] = ["V:c11.encoding_agrees_with_the_real_parser_on_the_corpus"]
    res["covers"] = [{"desc": "corpus has accepted and rejected texts", "status": "SATISFIED"}]
    return res


def main():
    ap = argparse.ArgumentParser()
    ap.add_argument("--repo", required=True)
    ap.add_argument("--instance", required=True)
    ap.add_argument("--out", required=True)
    ap.add_argument("--replayer")
    ap.add_argument("--timeout", type=int, default=900)
    a = ap.parse_args()
    t0 = time.time()
    try:
        if a.instance == "c11_translation_validated":
            res = run_validation(a.repo, a.replayer)
        else:
            res = run_instance(a.instance, a.repo, a.timeout)
    except pegsrc.Unsupported as e:
        res = {"verdict": "inconclusive", "reason": "grammar construct outside the reader: %s" % e,
               "checks_total": 0, "checks_failed": [], "oracle_ok": [], "covers": [], "covers_unsat": [],
               "verification_time_s": None, "playback": []}
    except Exception as e:  # noqa
        import traceback
        res = {"verdict": "inconclusive", "reason": "encoder error: %s" % e, "trace": traceback.format_exc(),
               "checks_total": 0, "checks_failed": [], "oracle_ok": [], "covers": [], "covers_unsat": [],
               "verification_time_s": None, "playback": []}
    res["wall_s"] = round(time.time() - t0, 1)
    res["harness"] = a.instance
    with open(a.out, "w") as fh:
        json.dump(res, fh, indent=1)
    print(json.dumps({k: v for k, v in res.items() if k not in ("detail",)}))


if __name__ == "__main__":
    main()
