#!/usr/bin/env python3
"""C05, client half: the `more` iterator yields every reply up to and including the final one, then ends.

  c05_client.py --repo DIR --instance c05_next|c05_more|c05_call --out FILE [--timeout S]

The MIR of the varlink crate is dumped from DIR on every run.  <MethodCall as Iterator>::next, MethodCall::more
and MethodCall::call are executed symbolically (mirsym.py) from an arbitrary value of the call's `continues`
flag; MethodCall::send and MethodCall::recv are contract models here (recorded, Ok or Err free; recv sets the
flag to a free value) - their own bodies are decided by the c07_send / c07_recv instances (same MIR dump), whose
clauses `continues_follows_the_reply` and `connection_is_free_again_after_the_final_reply` are the other half
of the argument:  next() reads exactly one reply while the flag is set and nothing once it is clear; recv()
sets the flag exactly when the reply carries continues=true and otherwise hands the stream back."""
import argparse
import json
import os
import sys
import time

sys.path.insert(0, os.path.dirname(os.path.abspath(__file__)))
import z3  # noqa: E402
import mirsym as ms  # noqa: E402
from mirsym import Unsupported  # noqa: E402
import c07  # noqa: E402

FN = {"c05_next": (r"<impl at varlink/src/lib\.rs[^>]*>::next", r"^_1: &mut MethodCall<"),
      "c05_more": (c07.IMPL + "::more", r"^_1: &mut MethodCall<"),
      "c05_call": (c07.IMPL + "::call", r"^_1: &mut MethodCall<"),
      "c07_upgrade": (c07.IMPL + "::upgrade", r"^_1: &mut MethodCall<"),
      "c04_oneway": (c07.IMPL + "::oneway", r"^_1: &mut MethodCall<")}


def models(state):
    def m_send(ex, path, a):
        flags = tuple(a[1:4])
        c07.events(path).append(("send", flags, ex.load(path, ms.Ref("__call", (5,)))))
        return c07.fresh_result("send", ok=ms.Struct({}))

    def m_recv(ex, path, a):
        k = len([e for e in c07.events(path) if e[0] == "recv"]) + 1
        ex.write(path, "__call", (5,), z3.Bool("continues_after_recv_%d" % k))
        d = z3.Int("recv_outcome_%d" % k)
        state.setdefault("range", []).append(z3.And(d >= 0, d <= 1))
        r = ms.Enum(d, {"Ok": ms.Struct({0: ms.Opaque("reply %d" % k)}), "Err": ms.Struct({0: ms.Opaque("error %d" % k)})})
        c07.events(path).append(("recv", r))
        return r

    def m_is_ok(ex, path, a):
        v = a[0] if isinstance(a[0], ms.Enum) else ex.load(path, a[0])
        return v.discr == 0

    def m_is_err(ex, path, a):
        v = a[0] if isinstance(a[0], ms.Enum) else ex.load(path, a[0])
        return v.discr == 1

    base = [m for m in c07.models() if "branch" in m[0] or "from_residual" in m[0] or "map_err" in m[0]
            or "Into<MError>" in m[0] or "From<error::Error>" in m[0] or "Option::<" in m[0]]
    return [(r"^MethodCall::<.*>::send$", m_send), (r"^MethodCall::<.*>::recv$", m_recv),
            (r"Result::<MReply, MError>::is_ok$", m_is_ok), (r"Result::<MReply, MError>::is_err$", m_is_err)] + base


def run(name, repo, timeout_s):
    t0 = time.time()
    mir = c07.dump_mir(repo)
    params, blocks = ms.find_function(mir, *FN[name])
    solver = z3.Solver()
    solver.set("timeout", max(1000, int(timeout_s * 1000 / 4)))
    cont0 = z3.Bool("call_continues")
    # the remaining slots of the call: presence free (only code that is not there today looks at them)
    slots = [c07.opt("call_" + n, ms.Opaque(n)) for n in ("request", "method", "reader", "writer")]
    base = [z3.And(d >= 0, d <= 1) for _, d in slots]
    call = ms.Struct({0: ms.Ref("__arc", ()), 1: slots[0][0], 2: slots[1][0], 3: slots[2][0], 4: slots[3][0], 5: cont0}, "MethodCall")
    init = {params[0]: ms.Ref("__call", ()), "__call": call}
    state = {}
    ex = ms.Exec(blocks, models(state), solver, base)
    finished = ex.run(init)
    if not finished:
        raise Unsupported("no returning path")
    queries = ex.queries
    failed = None
    seen = {"ended": False, "item": False, "ok": False, "err": False}

    def ask(pc, neg, label):
        nonlocal queries, failed
        solver.push(); solver.add(*base); solver.add(*pc); solver.add(neg)
        queries += 1
        r = solver.check()
        if r == z3.sat and failed is None:
            m = solver.model()
            failed = (label, {"call_continues": bool(m.eval(cont0, model_completion=True)),
                              "send_ok": all(m.eval(d, model_completion=True).as_long() == 0 for d in c07.RESULTS)})
        solver.pop()
        if r == z3.unknown:
            raise Unsupported("solver gave no answer (%s)" % label)

    T = z3.BoolVal(True)
    for path, ret in finished:
        pc = path.pc
        evs = c07.events(path)
        sends = [e for e in evs if e[0] == "send"]
        recvs = [e for e in evs if e[0] == "recv"]
        if any(e[0] == "panic" for e in evs):
            ask(pc, T, "P:c05.client_no_panic")
        after = path.locals["__call"].f[5]
        if name == "c05_next":
            if sends:
                ask(pc, T, "P:c05.next_sends_nothing")
            if not isinstance(ret, ms.Enum) or not isinstance(ret.discr, int):
                raise Unsupported("return value of next: %r" % (ret,))
            if ret.discr == 0:
                seen["ended"] = True
                # the iteration ends only once the last reply read was final
                ask(pc, cont0, "P:c05.iteration_ends_only_after_the_final_reply")
                if recvs:
                    ask(pc, T, "P:c05.nothing_is_read_after_the_final_reply")
            else:
                seen["item"] = True
                ask(pc, z3.Not(cont0), "P:c05.nothing_is_yielded_after_the_final_reply")
                item = ret.payloads["Some"].f.get(0)
                if len(recvs) != 1 or item is not recvs[0][1]:
                    ask(pc, T, "P:c05.each_item_is_exactly_one_reply_read")
                # whether another item follows is what recv left in the flag (c07_recv: it follows the reply)
                if not (z3.is_expr(after) and z3.eq(after, z3.Bool("continues_after_recv_1"))):
                    ask(pc, T, "P:c05.next_leaves_the_flag_as_recv_set_it")
        elif name == "c05_more":
            okr = c07.is_ok(ret)
            if len(sends) != 1:
                ask(pc, T, "P:c05.more_sends_exactly_one_request")
            else:
                fl = sends[0][1]
                want = (False, True, False)
                for got, w in zip(fl, want):
                    g = got if isinstance(got, bool) else None
                    if g is None or g != w:
                        ask(pc, T, "P:c05.more_sends_with_the_more_flag_only")
            if recvs:
                ask(pc, T, "P:c05.more_reads_nothing_itself")
            if okr:
                seen["ok"] = True
                # the iterator must be armed, else the first reply is never read and the connection stays taken
                if after is not True:
                    ask(pc, T if not z3.is_expr(after) else z3.Not(after), "P:c05.more_arms_the_iterator")
                if RESULTS_ERR(pc, solver):
                    pass
                ask(pc, z3.Or(*[d != 0 for d in c07.RESULTS]) if c07.RESULTS else z3.BoolVal(False),
                    "P:c05.more_succeeds_only_if_the_send_did")
            else:
                seen["err"] = True
                ask(pc, z3.And(*[d == 0 for d in c07.RESULTS]) if c07.RESULTS else T, "P:c05.more_fails_only_if_the_send_did")
        elif name == "c04_oneway":
            # the client's oneway call returns after sending and never consumes a reply
            ask(pc, z3.BoolVal(len(sends) != 1 or tuple(sends[0][1]) != (True, False, False)),
                "P:c04.client_oneway_sends_one_request_flagged_oneway")
            ask(pc, z3.BoolVal(bool(recvs)), "P:c04.client_oneway_never_reads_a_reply")
            if isinstance(ret, ms.Enum) and z3.is_expr(ret.discr):
                # the send's own result is handed on unchanged (one path for both outcomes)
                seen["ok"] = seen["err"] = True
                ask(pc, ret.discr != c07.RESULTS[-1] if c07.RESULTS else T, "P:c04.client_oneway_returns_the_outcome_of_the_send")
                continue
            seen["ok" if c07.is_ok(ret) else "err"] = True
            if c07.is_ok(ret):
                ask(pc, z3.Or(*[d != 0 for d in c07.RESULTS]) if c07.RESULTS else z3.BoolVal(False),
                    "P:c04.client_oneway_succeeds_only_if_the_send_did")
            else:
                ask(pc, z3.And(*[d == 0 for d in c07.RESULTS]) if c07.RESULTS else T, "P:c04.client_oneway_fails_only_if_the_send_did")
        else:  # c05_call / c07_upgrade
            want = (False, False, name == "c07_upgrade")
            if len(sends) != 1:
                ask(pc, T, "P:c05.call_sends_exactly_one_request")
            elif tuple(sends[0][1]) != want:
                ask(pc, T, "P:c05.call_sends_with_the_flags_of_its_mode")
            send_ok = z3.And(*[d == 0 for d in c07.RESULTS]) if c07.RESULTS else T
            if recvs:
                seen["ok"] = True
                ask(pc, z3.Not(send_ok), "P:c05.call_reads_only_after_a_successful_send")
                if len(recvs) != 1 or ret is not recvs[0][1]:
                    ask(pc, T, "P:c05.call_returns_the_one_reply_it_read")
            else:
                seen["err"] = True
                ask(pc, send_ok, "P:c05.call_reads_the_reply_of_a_successful_send")
                if c07.is_ok(ret):
                    ask(pc, T, "P:c05.call_without_a_reply_is_an_error")
    res = {"verdict": "pass", "reason": "", "checks_failed": [], "playback": [], "failed_labels": [],
           "checks_total": queries, "verification_time_s": round(time.time() - t0, 2), "oracle_ok": [], "covers": [],
           "covers_unsat": []}
    if failed:
        label, w = failed
        vals = [{"c05_next": 10, "c05_more": 11, "c05_call": 12, "c07_upgrade": 13, "c04_oneway": 14}[name], int(w["call_continues"]), int(w["send_ok"])]
        res.update(verdict="violation", failed_labels=[label], witness=w, playback=[[vals]])
    else:
        res["oracle_ok"] = ["P:c05.client.%s: all clauses" % name[4:]]
        need = ("ended", "item") if name == "c05_next" else ("ok", "err")
        res["covers"] = [{"desc": "a path where %s" % k, "status": "SATISFIED" if seen[k] else "UNSATISFIABLE"} for k in need]
        res["covers_unsat"] = [c["desc"] for c in res["covers"] if c["status"] != "SATISFIED"]
        if res["covers_unsat"]:
            res.update(verdict="inconclusive", reason="vacuous: cover not satisfied: %s" % res["covers_unsat"])
    res["detail"] = {"paths": len(finished), "models_used": sorted(ex.models_used)}
    return res


def RESULTS_ERR(pc, solver):
    return False


def main():
    ap = argparse.ArgumentParser()
    ap.add_argument("--repo", required=True)
    ap.add_argument("--instance", required=True)
    ap.add_argument("--out", required=True)
    ap.add_argument("--replayer")
    ap.add_argument("--timeout", type=int, default=900)
    a = ap.parse_args()
    t0 = time.time()
    try:
        res = run(a.instance, a.repo, a.timeout)
    except Unsupported as e:
        res = {"verdict": "inconclusive", "reason": "outside the MIR reader / the callee models: %s" % e,
               "checks_total": 0, "checks_failed": [], "oracle_ok": [], "covers": [], "covers_unsat": [],
               "verification_time_s": None, "playback": []}
    except Exception as e:  # noqa
        import traceback
        res = {"verdict": "inconclusive", "reason": "executor error: %s" % e, "trace": traceback.format_exc(),
               "checks_total": 0, "checks_failed": [], "oracle_ok": [], "covers": [], "covers_unsat": [],
               "verification_time_s": None, "playback": []}
    res["wall_s"] = round(time.time() - t0, 1)
    res["harness"] = a.instance
    with open(a.out, "w") as fh:
        json.dump(res, fh, indent=1)
    print(json.dumps({k: v for k, v in res.items() if k not in ("detail",)}))


if __name__ == "__main__":
    main()
