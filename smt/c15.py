#!/usr/bin/env python3
"""C15 (reduced): the listen loop stops when and only when it should.

  c15.py --repo DIR --instance c15_listen_stopflag|c15_listen_nostop --out FILE [--timeout S]

The MIR of varlink::listen is dumped from DIR on every run and executed symbolically (mirsym.py)
with the environment as nondeterministic stubs: every `Listener::accept(wait)` yields a connection,
a timeout (only when wait > 0 - accept(0) blocks) or another error; every read of the stop flag and
of the pool's busy count yields an arbitrary value.  Time is the sum of the waits that timed out.
Bound: at most N accept calls per run (paths needing more are cut and counted)."""
import argparse
import json
import os
import re
import subprocess
import sys
import time

sys.path.insert(0, os.path.dirname(os.path.abspath(__file__)))
import z3  # noqa: E402
import mirsym as ms  # noqa: E402
from mirsym import Unsupported  # noqa: E402

SCRATCH = os.environ.get("VERIF_SCRATCH", "/var/tmp/varlink-verif")
COUNTER = [0]


def dump_mir(repo):
    crate = os.path.join(repo, "varlink")
    os.utime(os.path.join(crate, "src", "lib.rs"))
    env = dict(os.environ)
    env.update({"CARGO_NET_OFFLINE": "true", "CARGO_TARGET_DIR": os.path.join(SCRATCH, "mir-tgt")})
    p = subprocess.run(["cargo", "+nightly", "rustc", "--offline", "--lib", "--", "-Zunpretty=mir",
                        "-C", "debug-assertions=off"], cwd=crate, env=env, stdout=subprocess.PIPE,
                       stderr=subprocess.PIPE, text=True, timeout=1500)
    if p.returncode != 0 or "fn " not in p.stdout:
        raise Unsupported("MIR dump failed: %s" % p.stderr[-400:])
    return p.stdout


def events(path):
    if "__events" not in path.locals:
        path.locals["__events"] = ms.VecV()
    return path.locals["__events"].items


def fresh(prefix):
    COUNTER[0] += 1
    return "%s_%d" % (prefix, COUNTER[0])


class TooLong(Exception):
    pass


def run(name, repo, timeout_s, max_accepts):
    t0 = time.time()
    mir = dump_mir(repo)
    src = open(os.path.join(repo, "varlink", "src", "error.rs")).read()
    m = re.search(r"pub enum ErrorKind \{(.*?)\n\}", src, re.S)
    variants = re.findall(r"^\s*([A-Z]\w*)", m.group(1), re.M) if m else []
    if "Timeout" not in variants:
        raise Unsupported("ErrorKind variants %r" % variants)
    KIND = {v: i for i, v in enumerate(variants)}
    ssrc = open(os.path.join(repo, "varlink", "src", "server.rs")).read()
    m = re.search(r"pub struct ListenConfig \{(.*?)\n\}", ssrc, re.S)
    order = re.findall(r"^\s*pub (\w+):", m.group(1), re.M) if m else []
    if order != ["initial_worker_threads", "max_worker_threads", "idle_timeout", "stop_listening"]:
        raise Unsupported("ListenConfig fields %r" % order)
    params, blocks = ms.find_function(mir, r"server::listen")
    # the closure handed to Option::map (the poll quantum when a stop flag exists): run its MIR
    cparams, cblocks = ms.find_function(mir, r"server::listen::\{closure#0\}")
    solver = z3.Solver()
    solver.set("timeout", max(1000, int(timeout_s * 1000 / 4)))
    stop_cfg = name == "c15_listen_stopflag"
    T = z3.Int("idle_timeout")
    base = [T >= 0, T <= (1 if stop_cfg else 5)]
    cut = [0]
    cut_paths = []
    bad_paths = []

    def err(kind):
        return ms.Enum("Error", {"Error": ms.Struct({0: ms.Enum(KIND[kind], {kind: ms.Struct({})}), 1: ms.Opaque("src"), 2: ms.Opaque("ctx")})})

    def m_identity(ex, path, a):
        return a[0]

    def m_result_free(tag, okval):
        def m(ex, path, a):
            d = z3.Int(fresh(tag))
            return ms.Enum(d, {"Ok": ms.Struct({0: okval}), "Err": ms.Struct({0: err("Io")})})
        return m

    def m_branch(ex, path, a):
        r = a[0]
        return ms.Enum(r.discr, {"Continue": ms.Struct({0: r.payloads["Ok"].f.get(0)}),
                                 "Break": ms.Struct({0: ms.Enum(1, {"Err": r.payloads["Err"]})})})

    def m_from_residual(ex, path, a):
        return ms.Enum(1, {"Err": a[0].payloads["Err"]})

    def m_as_ref(ex, path, a):
        return ex.load(path, a[0])

    def m_map(ex, path, a):
        o = a[0]
        if not isinstance(o, ms.Enum) or not isinstance(o.discr, int):
            raise Unsupported("Option::map on %r" % (o,))
        if o.discr == 0:
            return ms.none()
        sub = ms.Exec(cblocks, [], ex.solver, ex.base)
        fin = sub.run({cparams[0]: a[1], cparams[1]: o.payloads["Some"].f[0]})
        if len(fin) != 1:
            raise Unsupported("the mapping closure has %d paths" % len(fin))
        return ms.some(fin[0][1])

    def m_unwrap_or(ex, path, a):
        o = a[0]
        if not isinstance(o, ms.Enum) or not isinstance(o.discr, int):
            raise Unsupported("unwrap_or on %r" % (o,))
        return o.payloads["Some"].f[0] if o.discr == 1 else a[1]

    def m_accept(ex, path, a):
        wait = a[1]
        acc = [e for e in events(path) if e[0] == "accept"]
        if acc and acc[-1][2] == "error":
            # the loop went on after an accept error other than a timeout: judged below, the run is not followed further
            bad_paths.append((list(path.pc), "P:c15.accept_error_is_returned", "accept failed and the loop kept accepting"))
            return ms.Fork([])
        n = sum(1 for e in events(path) if e[0] == "accept")
        if n >= max_accepts:
            cut[0] += 1
            cut_paths.append((list(path.pc), list(events(path))))
            return ms.Fork([])   # bound reached: the path is abandoned (counted; its prefix is still judged for liveness)

        def ok(q, args):
            events(q).append(("accept", args[1], "connection"))
            return ms.Enum(0, {"Ok": ms.Struct({0: ms.Opaque("stream")}), "Err": ms.Struct({0: err("Io")})})

        def tmo(q, args):
            events(q).append(("accept", args[1], "timeout"))
            return ms.Enum(1, {"Err": ms.Struct({0: err("Timeout")}), "Ok": ms.Struct({0: ms.Opaque("stream")})})

        def other(q, args):
            events(q).append(("accept", args[1], "error"))
            return ms.Enum(1, {"Err": ms.Struct({0: err("Io")}), "Ok": ms.Struct({0: ms.Opaque("stream")})})
        k = z3.Int(fresh("accept"))
        wt = wait if not isinstance(wait, int) else z3.IntVal(wait)
        return ms.Fork([(k == 0, ok), (z3.And(k == 1, wt > 0), tmo), (k == 2, other)])

    def m_kind(ex, path, a):
        e = ex.load(path, a[0])
        while isinstance(e, ms.Enum) and e.discr == "Error":
            return e.payloads["Error"].f[0]
        raise Unsupported("Error::kind on %r" % (e,))

    def m_load(ex, path, a):
        b = z3.Bool(fresh("stop"))
        events(path).append(("stop", b))
        return b

    def m_num_busy(ex, path, a):
        n = z3.Int(fresh("busy"))
        path.pc.append(n >= 0)
        events(path).append(("busy", n))
        return n

    def m_execute(ex, path, a):
        events(path).append(("execute",))
        return ms.Opaque("()")

    def m_pool_new(ex, path, a):
        events(path).append(("pool", a[0], a[1]))
        return ms.Opaque("pool")

    models = [
        (r"^Arc::<H>::new$", m_identity), (r"^<Arc<H> as Clone>::clone$", m_identity),
        (r"^Listener::new::<S>$", m_result_free("listener_new", ms.Opaque("listener"))),
        (r"^Listener::set_nonblocking$", m_result_free("set_nonblocking", ms.Opaque("()"))),
        (r"as Try>::branch$", m_branch), (r"as FromResidual<.*>>::from_residual$", m_from_residual),
        (r"^ThreadPool::new$", m_pool_new), (r"^ThreadPool::num_busy$", m_num_busy), (r"^ThreadPool::execute::<.*>$", m_execute),
        (r"Option::<Arc<Atomic<bool>>>::as_ref$", m_as_ref), (r"Option::<&Arc<Atomic<bool>>>::map::<u64, .*>$", m_map),
        (r"Option::<u64>::unwrap_or$", m_unwrap_or), (r"^Listener::accept$", m_accept), (r"^error::Error::kind$", m_kind),
        (r"^Atomic::<bool>::load$", m_load), (r"<Arc<Atomic<bool>> as Deref>::deref$", m_identity),
    ]
    cfg = ms.Struct({0: z3.Int("initial_workers"), 1: z3.Int("max_workers"), 2: T,
                     3: ms.some(ms.Opaque("stop flag")) if stop_cfg else ms.none()}, "ListenConfig")
    ex = ms.Exec(blocks, models, solver, base, max_steps=3000000)
    finished = ex.run({params[0]: ms.Opaque("handler"), params[1]: ms.Opaque("address"), params[2]: ms.Ref("__cfg", ()), "__cfg": cfg})
    if not finished and not bad_paths:
        raise Unsupported("no returning path")
    queries = ex.queries
    failed = None
    seen = {"timeout": False, "stopped": False, "served": False}

    def ask(pc, neg, label, desc):
        nonlocal queries, failed
        solver.push(); solver.add(*base); solver.add(*pc); solver.add(neg)
        queries += 1
        r = solver.check()
        if r == z3.sat and failed is None:
            m = solver.model()
            failed = (label, desc, m.eval(T, model_completion=True).as_long())
        solver.pop()
        if r == z3.unknown:
            raise Unsupported("solver gave no answer (%s)" % label)

    TRUE = z3.BoolVal(True)
    for path, ret in finished:
        if time.time() - t0 > timeout_s:
            raise Unsupported("time budget exhausted after %d paths" % len(finished))
        evs = events(path)
        pc = path.pc
        accepts = [e for e in evs if e[0] == "accept"]
        # every accepted connection is handed to the pool before the next accept / the return
        pending = 0
        for e in evs:
            if e[0] == "accept":
                if pending:
                    ask(pc, TRUE, "P:c15.accepted_connection_is_handed_to_the_pool", "a connection was accepted and never executed")
                pending = 1 if e[2] == "connection" else 0
            elif e[0] == "execute":
                pending = 0
                seen["served"] = True
        is_ok = isinstance(ret, ms.Enum) and isinstance(ret.discr, int) and ret.discr == 0
        kind = None
        if not is_ok and isinstance(ret, ms.Enum):
            e = ret.payloads["Err"].f[0]
            if isinstance(e, ms.Enum) and e.discr == "Error":
                k = e.payloads["Error"].f[0]
                kind = variants[k.discr] if isinstance(k.discr, int) else None
        if pending and accepts and accepts[-1][2] == "connection":
            ask(pc, TRUE, "P:c15.accepted_connection_is_handed_to_the_pool", "returned with an accepted connection not executed")
        # idle time: the waits that timed out since the last accepted connection
        idle = z3.IntVal(0)
        for e in evs:
            if e[0] == "accept":
                if e[2] == "connection":
                    idle = z3.IntVal(0)
                elif e[2] == "timeout":
                    w = e[1] if not isinstance(e[1], int) else z3.IntVal(e[1])
                    idle = idle + w
        stops = [e[1] for e in evs if e[0] == "stop"]
        busys = [e[1] for e in evs if e[0] == "busy"]
        if is_ok:
            seen["stopped"] = True
            # success only because the stop flag was seen set, at the last poll
            if not stop_cfg or not stops:
                ask(pc, TRUE, "P:c15.ok_only_when_the_stop_flag_is_set", "returned Ok without reading a set stop flag")
            else:
                ask(pc, z3.Not(stops[-1]), "P:c15.ok_only_when_the_stop_flag_is_set", "returned Ok although the flag read false")
        elif kind == "Timeout":
            seen["timeout"] = True
            ask(pc, idle < T * 1000, "P:c15.timeout_only_after_the_idle_time", "timeout error before idle_timeout elapsed without a connection")
            if not busys:
                ask(pc, TRUE, "P:c15.no_timeout_while_a_connection_is_served", "timeout returned without looking at the busy count")
            else:
                ask(pc, busys[-1] != 0, "P:c15.no_timeout_while_a_connection_is_served", "timeout returned while workers were busy")
            if stop_cfg:
                ask(pc, T == 0, "P:c15.no_idle_timeout_when_it_is_zero", "idle_timeout 0 with a stop flag must never time out")
        # "stops accepting shortly after the flag is set": with a stop flag no single wait is longer than a second
        if stop_cfg:
            for e in accepts:
                w = e[1] if not isinstance(e[1], int) else z3.IntVal(e[1])
                ask(pc, z3.Or(w > 1000, w <= 0), "P:c15.stop_flag_is_polled_at_least_every_second",
                    "with a stop flag configured the loop blocks in accept for more than a second (or for ever)")
        # a stop flag seen set ends the loop at once
        for i, sflag in enumerate(stops[:-1]):
            ask(pc, sflag, "P:c15.stops_as_soon_as_the_flag_is_seen", "kept polling after the flag read true")
        if stops and not is_ok:
            ask(pc, stops[-1], "P:c15.stops_as_soon_as_the_flag_is_seen", "the flag read true and the result is not Ok")
        # an error of accept other than a timeout ends the loop with that error
        if accepts and accepts[-1][2] == "error" and (is_ok or kind == "Timeout"):
            ask(pc, TRUE, "P:c15.accept_error_is_returned", "accept failed and the result does not say so")
    for pc, label, desc in bad_paths:
        ask(pc, TRUE, label, desc)
    # liveness on the runs that were cut at the bound: an idle period may only be survived because workers were busy
    for pc, evs in cut_paths:
        idle = z3.IntVal(0)
        excused = False
        for e in evs:
            if e[0] == "accept":
                if e[2] == "connection":
                    idle, excused = z3.IntVal(0), False
                elif e[2] == "timeout":
                    idle = idle + (e[1] if not isinstance(e[1], int) else z3.IntVal(e[1]))
            elif e[0] == "busy":
                excused = True      # the loop looked at the busy count (and, still running, found it non-zero)
        if not excused:
            ask(pc, z3.And(T > 0, idle >= T * 1000 + 100), "P:c15.idle_server_does_time_out",
                "an idle period longer than idle_timeout passed without the loop looking at the busy count")
    # completeness: an idle server without stop flag does time out (some path returns the timeout)
    res = {"verdict": "pass", "reason": "", "checks_failed": [], "playback": [], "failed_labels": [],
           "checks_total": queries, "verification_time_s": round(time.time() - t0, 2), "oracle_ok": [], "covers": [], "covers_unsat": []}
    if failed:
        label, desc, tval = failed
        res.update(verdict="violation", failed_labels=[label], witness=desc, playback=[[[1 if stop_cfg else 0, tval]]])
    else:
        res["oracle_ok"] = ["P:c15.accepted_connection_is_handed_to_the_pool", "P:c15.ok_only_when_the_stop_flag_is_set",
                            "P:c15.timeout_only_after_the_idle_time", "P:c15.no_timeout_while_a_connection_is_served",
                            "P:c15.stops_as_soon_as_the_flag_is_seen", "P:c15.accept_error_is_returned",
                            "P:c15.idle_server_does_time_out"] + (
                                ["P:c15.no_idle_timeout_when_it_is_zero", "P:c15.stop_flag_is_polled_at_least_every_second"] if stop_cfg else [])
        res["covers"] = [{"desc": "a run that ends with the idle timeout", "status": "SATISFIED" if seen["timeout"] else "UNSATISFIABLE"},
                         {"desc": "a run that serves a connection", "status": "SATISFIED" if seen["served"] else "UNSATISFIABLE"}]
        if stop_cfg:
            res["covers"].append({"desc": "a run that ends because the stop flag was set", "status": "SATISFIED" if seen["stopped"] else "UNSATISFIABLE"})
        res["covers_unsat"] = [c["desc"] for c in res["covers"] if c["status"] != "SATISFIED"]
        if res["covers_unsat"]:
            res.update(verdict="inconclusive", reason="vacuous: cover not satisfied: %s" % res["covers_unsat"])
    res["detail"] = {"paths": len(finished), "paths_cut_at_the_accept_bound": cut[0], "max_accepts": max_accepts,
                     "models_used": sorted(ex.models_used)}
    return res


def main():
    ap = argparse.ArgumentParser()
    ap.add_argument("--repo", required=True)
    ap.add_argument("--instance", required=True)
    ap.add_argument("--out", required=True)
    ap.add_argument("--replayer")
    ap.add_argument("--timeout", type=int, default=900)
    a = ap.parse_args()
    t0 = time.time()
    try:
        inst = a.instance
        n = 12
        m = re.match(r"(c15_listen_\w+?)_(\d+)$", inst)
        if m:
            inst, n = m.group(1), int(m.group(2))
        res = run(inst, a.repo, a.timeout, n)
    except Unsupported as e:
        res = {"verdict": "inconclusive", "reason": "outside the MIR reader / the callee models: %s" % e,
               "checks_total": 0, "checks_failed": [], "oracle_ok": [], "covers": [], "covers_unsat": [],
               "verification_time_s": None, "playback": []}
    except Exception as e:  # noqa
        import traceback
        res = {"verdict": "inconclusive", "reason": "executor error: %s" % e, "trace": traceback.format_exc(),
               "checks_total": 0, "checks_failed": [], "oracle_ok": [], "covers": [], "covers_unsat": [],
               "verification_time_s": None, "playback": []}
    res["wall_s"] = round(time.time() - t0, 1)
    res["harness"] = a.instance
    with open(a.out, "w") as fh:
        json.dump(res, fh, indent=1)
    print(json.dumps({k: v for k, v in res.items() if k not in ("detail",)}))


if __name__ == "__main__":
    main()
