"""Reader for the subset of rust-peg's grammar language that varlink_parser/src/varlink_grammar.rs
is written in (and a little more): rules, ordered choice, sequences with labels and action blocks,
`$()`, `quiet!{}`, `expected!()`, `position!()`, string literals, character-class patterns, `[_]`,
`?`, `*`, `+`, `**`, `++`, `!`, `&`, rule calls.

Only the *recognition* structure is kept: labels, `$`, quiet! and action blocks do not change which
prefix a rule matches.  Anything the reader does not know raises Unsupported, which the check
reports as inconclusive - never as a pass."""
import re


class Unsupported(Exception):
    pass


TOKEN_RE = re.compile(r"""
    (?P<ws>\s+|//[^\n]*|/\*.*?\*/)
  | (?P<str>"(?:[^"\\]|\\.)*")
  | (?P<chr>'(?:\\u\{[0-9a-fA-F]+\}|\\.|[^'\\])')
  | (?P<life>'[A-Za-z_][A-Za-z0-9_]*)
  | (?P<id>[A-Za-z_][A-Za-z0-9_]*)
  | (?P<num>[0-9]+)
  | (?P<op>->|\.\.=|\*\*|\+\+|::|=>|==|!=|<=|>=|&&|\|\||.)
""", re.X | re.S)


def tokenize(text):
    out = []
    pos = 0
    while pos < len(text):
        m = TOKEN_RE.match(text, pos)
        if not m:
            raise Unsupported("cannot tokenize at %r" % text[pos:pos + 20])
        pos = m.end()
        k = m.lastgroup
        if k == "ws":
            continue
        out.append((k, m.group(k)))
    return out


def unescape(body):
    """Rust string/char literal body -> str"""
    out = []
    i = 0
    while i < len(body):
        c = body[i]
        if c != "\\":
            out.append(c)
            i += 1
            continue
        n = body[i + 1]
        if n == "n":
            out.append("\n"); i += 2
        elif n == "r":
            out.append("\r"); i += 2
        elif n == "t":
            out.append("\t"); i += 2
        elif n == "0":
            out.append("\0"); i += 2
        elif n in "\\'\"":
            out.append(n); i += 2
        elif n == "x":
            out.append(chr(int(body[i + 2:i + 4], 16))); i += 4
        elif n == "u":
            j = body.index("}", i)
            out.append(chr(int(body[i + 3:j], 16))); i = j + 1
        else:
            raise Unsupported("escape \\%s" % n)
    return "".join(out)


def extract_grammar(src):
    """the text between the braces of `grammar NAME() for str { ... }` inside peg::parser!{...}"""
    m = re.search(r"peg::parser!\s*\{\s*grammar\s+\w+\s*\(\s*\)\s*for\s+str\s*\{", src)
    if not m:
        raise Unsupported("peg::parser!{ grammar ..() for str {")
    depth = 1
    i = m.end()
    # brace matching on tokens so that braces in literals do not count
    toks = tokenize(src[i:])
    out = []
    for k, v in toks:
        if k == "op" and v == "{":
            depth += 1
        elif k == "op" and v == "}":
            depth -= 1
            if depth == 0:
                return out
        out.append((k, v))
    raise Unsupported("unbalanced grammar block")


class P:
    def __init__(self, toks):
        self.t = toks
        self.i = 0

    def peek(self, o=0):
        return self.t[self.i + o] if self.i + o < len(self.t) else ("eof", "")

    def next(self):
        t = self.peek()
        self.i += 1
        return t

    def at_op(self, v, o=0):
        return self.peek(o) == ("op", v)

    def expect_op(self, v):
        if not self.at_op(v):
            raise Unsupported("expected %r, found %r" % (v, self.peek()))
        self.i += 1

    def skip_balanced(self, open_, close):
        self.expect_op(open_)
        depth = 1
        while depth:
            k, v = self.next()
            if k == "eof":
                raise Unsupported("unbalanced %s" % open_)
            if k == "op" and v == open_:
                depth += 1
            elif k == "op" and v == close:
                depth -= 1

    # grammar := (use ...; | [pub] rule ...)*
    def grammar(self):
        rules = {}
        order = []
        while self.peek()[0] != "eof":
            k, v = self.peek()
            if (k, v) == ("id", "use"):
                while not self.at_op(";"):
                    self.next()
                self.next()
                continue
            if k == "op" and v == "#":
                # attribute such as #[cache]
                self.next()
                self.skip_balanced("[", "]")
                continue
            if (k, v) == ("id", "pub"):
                self.next()
                if self.at_op("("):
                    self.skip_balanced("(", ")")
                continue
            if (k, v) == ("id", "rule"):
                self.next()
                name = self.next()
                if name[0] != "id":
                    raise Unsupported("rule name")
                if self.at_op("<"):
                    raise Unsupported("generic rule")
                self.expect_op("(")
                if not self.at_op(")"):
                    raise Unsupported("rule with arguments: %s" % name[1])
                self.expect_op(")")
                if self.at_op("->"):
                    self.next()
                    depth = 0
                    while True:
                        k2, v2 = self.peek()
                        if k2 == "eof":
                            raise Unsupported("rule type")
                        if k2 == "op" and v2 in "(<[":
                            depth += 1
                        elif k2 == "op" and v2 in ")>]":
                            depth -= 1
                        elif k2 == "op" and v2 == "=" and depth == 0:
                            break
                        self.next()
                self.expect_op("=")
                rules[name[1]] = self.choice()
                order.append(name[1])
                continue
            raise Unsupported("unexpected token %r at top level" % (self.peek(),))
        return rules, order

    def choice(self):
        alts = [self.sequence()]
        while self.at_op("/"):
            self.next()
            alts.append(self.sequence())
        return alts[0] if len(alts) == 1 else ("alt", alts)

    def starts_item(self):
        k, v = self.peek()
        if k in ("str", "id"):
            if k == "id" and v in ("rule", "pub", "use"):
                return False
            return True
        if k == "op" and v in ("$", "!", "&", "(", "["):
            return True
        return False

    def sequence(self):
        items = []
        while self.starts_item():
            # label?
            if self.peek()[0] == "id" and self.at_op(":", 1) and not self.at_op("::", 1):
                self.next()
                self.next()
            items.append(self.suffixed())
        if self.at_op("{"):
            # action block (does not influence recognition); `{? ... }` conditional actions do
            if self.at_op("?", 1):
                raise Unsupported("conditional action {? }")
            self.skip_balanced("{", "}")
        if len(items) == 1:
            return items[0]
        return ("seq", items)

    def suffixed(self):
        e = self.prefixed()
        while True:
            if self.at_op("?"):
                self.next(); e = ("opt", e)
            elif self.at_op("**") or self.at_op("++"):
                mn = 0 if self.next()[1] == "**" else 1
                if self.at_op("<"):
                    raise Unsupported("bounded repeat")
                sep = self.primary()
                e = ("sep", e, sep, mn)
            elif self.at_op("*"):
                self.next()
                if self.at_op("<"):
                    raise Unsupported("bounded repeat")
                e = ("star", e)
            elif self.at_op("+"):
                self.next()
                if self.at_op("<"):
                    raise Unsupported("bounded repeat")
                e = ("plus", e)
            else:
                return e

    def prefixed(self):
        if self.at_op("$"):
            self.next()
            return self.primary()
        if self.at_op("!"):
            self.next()
            return ("not", self.prefixed())
        if self.at_op("&"):
            self.next()
            return ("and", self.prefixed())
        return self.primary()

    def primary(self):
        k, v = self.peek()
        if k == "str":
            self.next()
            return ("lit", unescape(v[1:-1]).encode("utf-8"))
        if k == "op" and v == "(":
            self.next()
            e = self.choice()
            self.expect_op(")")
            return e
        if k == "op" and v == "[":
            self.next()
            return self.pattern()
        if k == "id":
            if self.at_op("!", 1):
                self.next(); self.next()
                if v == "quiet":
                    self.expect_op("{")
                    e = self.choice()
                    self.expect_op("}")
                    return e
                if v == "expected":
                    self.skip_balanced("(", ")")
                    return ("fail",)
                if v == "position":
                    self.skip_balanced("(", ")")
                    return ("seq", [])
                raise Unsupported("macro %s!" % v)
            self.next()
            self.expect_op("(")
            if not self.at_op(")"):
                raise Unsupported("rule call with arguments")
            self.expect_op(")")
            return ("call", v)
        raise Unsupported("primary %r" % ((k, v),))

    def pattern(self):
        # [_]  or  [ pat | pat ... ]  with pat := 'c' | 'a'..='z'
        if self.peek() == ("id", "_") and self.at_op("]", 1):
            self.next(); self.next()
            return ("any",)
        neg = False
        if self.at_op("^"):
            raise Unsupported("negated class")
        ranges = []
        while True:
            k, v = self.next()
            if k != "chr":
                raise Unsupported("pattern element %r" % ((k, v),))
            lo = ord(unescape(v[1:-1]))
            hi = lo
            if self.at_op("..="):
                self.next()
                k, v = self.next()
                if k != "chr":
                    raise Unsupported("range end")
                hi = ord(unescape(v[1:-1]))
            ranges.append((lo, hi))
            if self.at_op("|"):
                self.next()
                continue
            self.expect_op("]")
            break
        return ("cls", tuple(ranges))


def load(path):
    with open(path) as fh:
        src = fh.read()
    toks = extract_grammar(src)
    rules, order = P(toks).grammar()
    return rules, order


if __name__ == "__main__":
    import sys, pprint
    r, o = load(sys.argv[1])
    for n in o:
        print(n, "=")
        pprint.pprint(r[n], width=110)
