#!/usr/bin/env python3
"""C07 (reduced): a client connection carries one call at a time and reports outcomes faithfully.

  c07.py --repo DIR --instance c07_send|c07_recv --out FILE [--timeout S]

The MIR of the varlink crate is dumped from DIR on every run; MethodCall::send and MethodCall::recv
are executed symbolically (mirsym.py) from an arbitrary state of the connection's and the call's
reader/writer slots, callees replaced by contract models.  Per returning path z3 is asked
`path condition and not property`."""
import argparse
import json
import os
import subprocess
import sys
import time

sys.path.insert(0, os.path.dirname(os.path.abspath(__file__)))
import z3  # noqa: E402
import mirsym as ms  # noqa: E402
from mirsym import Unsupported  # noqa: E402

SCRATCH = os.environ.get("VERIF_SCRATCH", "/var/tmp/varlink-verif")
IMPL = r"<impl at varlink/src/lib\.rs[^>]*>"
RESULTS = []


def dump_mir(repo):
    crate = os.path.join(repo, "varlink")
    os.utime(os.path.join(crate, "src", "lib.rs"))
    env = dict(os.environ)
    env.update({"CARGO_NET_OFFLINE": "true", "CARGO_TARGET_DIR": os.path.join(SCRATCH, "mir-tgt")})
    p = subprocess.run(["cargo", "+nightly", "rustc", "--offline", "--lib", "--", "-Zunpretty=mir",
                        "-C", "debug-assertions=off"], cwd=crate, env=env, stdout=subprocess.PIPE,
                       stderr=subprocess.PIPE, text=True, timeout=1500)
    if p.returncode != 0 or "fn " not in p.stdout:
        raise Unsupported("MIR dump failed: %s" % p.stderr[-400:])
    return p.stdout


def events(path):
    if "__events" not in path.locals:
        path.locals["__events"] = ms.VecV()
    return path.locals["__events"].items


def fresh_result(tag, ok=None):
    d = z3.Int("%s_%d" % (tag, len(RESULTS)))
    RESULTS.append(d)
    return ms.Enum(d, {"Ok": ms.Struct({0: ok if ok is not None else ms.Opaque(tag + ".ok")}),
                       "Err": ms.Struct({0: ms.Enum("Foreign", {"Foreign": ms.Struct({0: tag})})})})


def opt(name, payload):
    d = z3.Int(name)
    return ms.Enum(d, {"Some": ms.Struct({0: payload})}), d


def present(e):
    """condition that an Option value is Some"""
    if isinstance(e.discr, int):
        return z3.BoolVal(e.discr == 1)
    return e.discr == 1


def holds(e, obj):
    """Option value is Some(obj) for a marker object (identity of opaque payloads)"""
    if not isinstance(e, ms.Enum) or "Some" not in e.payloads:
        return z3.BoolVal(False)
    p = e.payloads["Some"].f.get(0)
    same = isinstance(p, ms.Opaque) and isinstance(obj, ms.Opaque) and p.what == obj.what
    return z3.And(present(e), z3.BoolVal(same))


def models():
    def m_identity(ex, path, a):
        return a[0]

    def m_load(ex, path, a):
        return ex.load(path, a[0])

    def m_guard(ex, path, a):
        return ms.Ref("__conn", ())

    def m_take(ex, path, a):
        cur = ex.load(path, a[0])
        if not isinstance(cur, ms.Enum):
            raise Unsupported("take on %r" % (cur,))
        ex.write(path, a[0].local, a[0].proj, ms.none())
        return cur

    def m_is_none(ex, path, a):
        cur = ex.load(path, a[0])
        return (cur.discr == 0) if not isinstance(cur.discr, int) else (cur.discr == 0)

    def m_is_some(ex, path, a):
        cur = ex.load(path, a[0])
        return (cur.discr == 1) if not isinstance(cur.discr, int) else (cur.discr == 1)

    def m_unwrap(ex, path, a):
        v = a[0]
        if not isinstance(v, ms.Enum):
            return v
        some = "Some" if "Some" in v.payloads or "None" in v.payloads else "Ok"
        want = 1 if some == "Some" else 0
        if isinstance(v.discr, int):
            if v.discr != want:
                raise Unsupported("unwrap of an empty value")
            return v.payloads[some].f[0]
        # the value is there on every path the real code can take; otherwise this would be a panic
        if ex.feasible(path.pc, v.discr != want):
            events(path).append(("panic", "unwrap"))
        path.pc.append(v.discr == want)
        return v.payloads[some].f[0]

    def m_create(ex, path, a):
        return ms.Struct({0: ms.none(), 1: ms.none(), 2: ms.none(), 3: a[0], 4: a[1]}, "Request",
                         ["more", "oneway", "upgrade", "method", "parameters"])

    def m_to_value(ex, path, a):
        return fresh_result("to_value")

    def m_to_string(ex, path, a):
        req = ex.load(path, a[0])
        snap = ms.Struct(dict(req.f), "json") if isinstance(req, ms.Struct) else ms.Opaque("json")
        return fresh_result("to_string", snap)

    def m_map_err(ex, path, a):
        return a[0]

    def m_branch(ex, path, a):
        r = a[0]
        return ms.Enum(r.discr, {"Continue": ms.Struct({0: r.payloads["Ok"].f.get(0)}),
                                 "Break": ms.Struct({0: ms.Enum(1, {"Err": r.payloads["Err"]})})})

    def m_from_residual(ex, path, a):
        r = a[0]
        return ms.Enum(1, {"Err": r.payloads["Err"]})

    def m_write_all(ex, path, a):
        events(path).append(("write_all", ex.load(path, a[0]), ex.load(path, a[1])))
        return fresh_result("write_all")

    def m_flush(ex, path, a):
        events(path).append(("flush", ex.load(path, a[0])))
        return fresh_result("flush")

    def m_read_until(ex, path, a):
        # io error / end of stream (nothing appended) / a message
        def err(q, args):
            events(q).append(("read", "error"))
            return ms.Enum(1, {"Err": ms.Struct({0: ms.Enum("Foreign", {"Foreign": ms.Struct({0: "read"})})}), "Ok": ms.Struct({0: 0})})

        def eof(q, args):
            events(q).append(("read", "eof"))
            return ms.Enum(0, {"Ok": ms.Struct({0: 0}), "Err": ms.Struct({0: ms.Opaque("e")})})

        def msg(q, args):
            events(q).append(("read", "message"))
            buf = ex.load(q, args[2])
            buf.items.append(ms.Opaque("bytes"))
            return ms.Enum(0, {"Ok": ms.Struct({0: 1}), "Err": ms.Struct({0: ms.Opaque("e")})})
        k = z3.Int("read_outcome")
        return ms.Fork([(k == 0, err), (k == 1, eof), (k == 2, msg)])

    def m_vec_new(ex, path, a):
        return ms.VecV()

    def m_vec_is_empty(ex, path, a):
        return len(ex.load(path, a[0]).items) == 0

    def m_opaque(ex, path, a):
        return ms.Opaque("value")

    def m_from_slice(ex, path, a):
        cont, _ = opt("reply_continues_present", z3.Bool("reply_continues_value"))
        err, _ = opt("reply_error_present", ms.Opaque("error name"))
        par, _ = opt("reply_parameters_present", ms.Opaque("reply parameters"))
        reply = ms.Struct({0: cont, 1: err, 2: par}, "Reply", ["continues", "error", "parameters"])
        return fresh_result("from_slice", reply)

    def m_from_value(ex, path, a):
        return fresh_result("from_value", ms.Opaque("typed reply"))

    def m_kind_from_reply(ex, path, a):
        return ms.Enum("FromReply", {"FromReply": ms.Struct({0: a[0]})})

    def m_into(ex, path, a):
        return a[0]

    return [
        (r"<Arc<.*RwLock<Connection>> as Deref>::deref$", m_identity),
        (r"RwLock::<Connection>::write$", m_identity),
        (r"Result::<.*RwLockWriteGuard<'_, Connection>.*>::unwrap$", m_guard),
        (r"<.*RwLockWriteGuard<'_, Connection> as Deref(Mut)?>::deref(_mut)?$", m_guard),
        (r"Option::<.*>::take$", m_take),
        (r"Option::<.*>::is_none$", m_is_none),
        (r"Option::<.*>::is_some$", m_is_some),
        (r"Option::<.*>::unwrap$", m_unwrap),
        (r"^Request::<'_>::create::<.*>$", m_create),
        (r"^to_value::<.*>$", m_to_value),
        (r"^serde_json::to_string::<.*>$", m_to_string),
        (r"Result::<.*>::map_err::<.*>$", m_map_err),
        (r"as Try>::branch$", m_branch),
        (r"as FromResidual<.*>>::from_residual$", m_from_residual),
        (r"<std::string::String as Add<&str>>::add$", m_identity),
        (r"String::as_bytes$", m_load),
        (r"as std::io::Write>::write_all$", m_write_all),
        (r"as std::io::Write>::flush$", m_flush),
        (r"as BufRead>::read_until$", m_read_until),
        (r"^Vec::<u8>::new$", m_vec_new),
        (r"^Vec::<u8>::is_empty$", m_vec_is_empty),
        (r"^Vec::<u8>::pop$", m_opaque),
        (r"^<Vec<u8> as Deref>::deref$", m_opaque),
        (r"^from_slice::<'_, Reply>$", m_from_slice),
        (r"^from_value::<.*>$", m_from_value),
        (r"^serde_json::Map::<.*>::new$", m_opaque),
        (r"<error::ErrorKind as From<Reply>>::from$", m_kind_from_reply),
        (r"<error::Error as Into<MError>>::into$", m_into),
        (r"<MError as From<error::Error>>::from$", m_into),
    ]


MODEL_DOC = [
    "MIR symbolic execution (smt/mirsym.py, smt/c07.py); callees are replaced by contract models:",
    "Arc::deref, RwLock::write, unwrap of the lock result, Deref/DerefMut of the guard -> the Connection (no poisoning, no other thread)",
    "Option::take / is_none / is_some / unwrap -> their definitions on a value whose presence is a z3 variable (unwrap of None = panic event)",
    "Request::create -> a request with no flags set; serde_json::to_value / to_string / from_slice / from_value -> Ok or Err (free); the "
    "serialized text remembers the request's flags; the parsed Reply has free continues / error / parameters members",
    "Write::write_all / flush on the boxed writer -> recorded events, Ok or Err (free); BufRead::read_until -> io error, end of stream "
    "(nothing appended) or one message (one successor path each)",
    "Result::map_err, Try::branch, FromResidual::from_residual, Into/From between error types -> the `?` contract, the error value kept",
    "<ErrorKind as From<Reply>>::from -> a value that remembers the reply it was built from",
]


def err_kind(ret):
    """name of the ErrorKind variant inside an Err(...) result, or 'Foreign:<what>'"""
    try:
        e = ret.payloads["Err"].f[0]
        while isinstance(e, ms.Enum) and e.discr == "Error":
            e = e.payloads["Error"].f[0]
        if isinstance(e, ms.Enum) and isinstance(e.discr, str):
            if e.discr == "Foreign":
                return "Foreign:" + str(e.payloads["Foreign"].f[0])
            return e.discr
    except (KeyError, AttributeError):
        pass
    return "?"


def is_ok(ret):
    return isinstance(ret, ms.Enum) and isinstance(ret.discr, int) and ret.discr == 0


def run(name, repo, timeout_s):
    t0 = time.time()
    mir = dump_mir(repo)
    fn = "send" if name == "c07_send" else "recv"
    params, blocks = ms.find_function(mir, IMPL + "::" + fn, r"^_1: &mut MethodCall<")
    solver = z3.Solver()
    solver.set("timeout", max(1000, int(timeout_s * 1000 / 4)))
    CR, CW, SR, SW = ms.Opaque("connection reader"), ms.Opaque("connection writer"), ms.Opaque("call reader"), ms.Opaque("call writer")
    cr, cr_p = opt("conn_reader", CR)
    cw, cw_p = opt("conn_writer", CW)
    sr, sr_p = opt("call_reader", SR)
    sw, sw_p = opt("call_writer", SW)
    rq, rq_p = opt("call_request", ms.Opaque("request parameters"))
    me, me_p = opt("call_method", ms.Opaque("method name"))
    base = [z3.And(d >= 0, d <= 1) for d in (cr_p, cw_p, sr_p, sw_p, rq_p, me_p)]
    base += [z3.Int("read_outcome") >= 0, z3.Int("read_outcome") <= 2]
    for nm in ("reply_continues_present", "reply_error_present", "reply_parameters_present"):
        base += [z3.Int(nm) >= 0, z3.Int(nm) <= 1]
    # a stream half is in exactly one place: connection or call (the type's own invariant)
    base += [z3.Not(z3.And(cr_p == 1, sr_p == 1)), z3.Not(z3.And(cw_p == 1, sw_p == 1))]
    # the call's two private slots are filled and emptied together by send / recv (no public access): a pre-state with
    # only one of them is reached by no history (the connection's slots are public fields, so they stay independent)
    base += [sr_p == sw_p]
    conn = ms.Struct({0: cr, 1: cw, 2: ms.Opaque("address"), 3: ms.Opaque("stream"), 4: ms.Opaque("child"), 5: ms.Opaque("tempdir")}, "Connection")
    call = ms.Struct({0: ms.Ref("__arc", ()), 1: rq, 2: me, 3: sr, 4: sw, 5: z3.Bool("call_continues")}, "MethodCall")
    init = {params[0]: ms.Ref("__call", ()), "__call": call, "__arc": ms.Ref("__conn", ()), "__conn": conn}
    flags = {}
    if fn == "send":
        for i, nm in enumerate(("oneway", "more", "upgrade")):
            flags[nm] = z3.Bool(nm)
            init[params[1 + i]] = flags[nm]
    # field positions as the MIR uses them: confirm against the source declarations
    src = open(os.path.join(repo, "varlink", "src", "lib.rs")).read()
    import re
    m = re.search(r"pub struct MethodCall<[^{]*\{(.*?)\n\}", src, re.S)
    order = re.findall(r"^\s*(\w+):", m.group(1), re.M) if m else []
    if order[:6] != ["connection", "request", "method", "reader", "writer", "continues"]:
        raise Unsupported("MethodCall field order %r" % order)
    m = re.search(r"pub struct Connection \{(.*?)\n\}", src, re.S)
    order = re.findall(r"^\s*(?:pub )?(\w+):", m.group(1), re.M) if m else []
    if order[:2] != ["reader", "writer"]:
        raise Unsupported("Connection field order %r" % order)
    ex = ms.Exec(blocks, models(), solver, base)
    finished = ex.run(init)
    if not finished:
        raise Unsupported("no returning path")
    queries = ex.queries
    failed = None
    seen = {"ok": False, "refused": False}

    def ask(pc, neg, label, wit_extra=None):
        nonlocal queries, failed
        solver.push(); solver.add(*base); solver.add(*pc); solver.add(neg)
        queries += 1
        r = solver.check()
        if r == z3.sat and (failed is None or not failed[2]):
            m = solver.model()
            clean = not flags
            if flags:
                # prefer a witness the public API can produce: at most one of the three mode flags
                solver.add(z3.AtMost(*flags.values(), 1))
                queries += 1
                if solver.check() == z3.sat:
                    m = solver.model()
                    clean = True
            if failed is not None and not clean:
                solver.pop()
                return
            ev = lambda t: m.eval(t, model_completion=True)  # noqa: E731
            w = {k: ev(v).as_long() for k, v in (("conn_reader", cr_p), ("conn_writer", cw_p), ("call_reader", sr_p),
                                                 ("call_writer", sw_p), ("call_request", rq_p), ("call_method", me_p))}
            for nm, f in flags.items():
                w[nm] = bool(ev(f))
            w["read_outcome"] = ev(z3.Int("read_outcome")).as_long()
            for nm in ("reply_continues_present", "reply_error_present", "reply_parameters_present"):
                w[nm] = ev(z3.Int(nm)).as_long()
            w["reply_continues_value"] = bool(ev(z3.Bool("reply_continues_value")))
            failed = (label, w, clean)
        solver.pop()
        if r == z3.unknown:
            raise Unsupported("solver gave no answer (%s)" % label)

    T = z3.BoolVal(True)
    for path, ret in finished:
        if time.time() - t0 > timeout_s:
            raise Unsupported("time budget exhausted")
        pc = path.pc
        evs = events(path)
        c2 = path.locals["__conn"]
        s2 = path.locals["__call"]
        writes = [e for e in evs if e[0] in ("write_all", "flush")]
        all_ok = z3.And(*[d == 0 for d in RESULTS]) if RESULTS else T
        if any(e[0] == "panic" for e in evs):
            ask(pc, T, "P:c07.no_panic")
        conn_same = z3.And(holds(c2.f[0], CR) == (cr_p == 1), holds(c2.f[1], CW) == (cw_p == 1),
                           present(c2.f[0]) == (cr_p == 1), present(c2.f[1]) == (cw_p == 1))
        if fn == "send":
            has = z3.And(rq_p == 1, me_p == 1)
            free = z3.And(cr_p == 1, cw_p == 1)
            kind = err_kind(ret) if not is_ok(ret) else None
            # the call object can be sent only once
            ask(pc, z3.Or(present(s2.f[1]), present(s2.f[2])), "P:c07.a_call_object_is_consumed_by_send")
            if kind != "MethodCalledAlready":
                ask(pc, z3.Not(has), "P:c07.second_send_of_a_call_fails_with_called_already")
            else:
                seen["refused"] = True
                ask(pc, has, "P:c07.called_already_only_for_a_consumed_call")
            if kind == "ConnectionBusy":
                seen["refused"] = True
                ask(pc, z3.Or(z3.Not(has), free), "P:c07.busy_only_when_the_connection_is_taken")
            if writes:
                ask(pc, z3.Not(z3.And(has, free)), "P:c07.nothing_is_written_while_the_connection_is_busy")
            if is_ok(ret):
                seen["ok"] = True
                ask(pc, z3.Not(z3.And(has, free)), "P:c07.send_succeeds_only_on_a_free_connection")
                # exactly one message, on the connection's writer, flushed, with the flags asked for
                okw = (len(writes) == 2 and writes[0][0] == "write_all" and writes[1][0] == "flush"
                       and isinstance(writes[0][1], ms.Opaque) and writes[0][1].what == CW.what
                       and isinstance(writes[1][1], ms.Opaque) and writes[1][1].what == CW.what)
                if not okw:
                    ask(pc, T, "P:c07.one_message_written_and_flushed")
                else:
                    snap = writes[0][2]
                    if isinstance(snap, ms.Struct) and snap.tag == "json":
                        for idx, nm in ((0, "more"), (1, "oneway"), (2, "upgrade")):
                            fl = snap.f[idx]
                            is_true = isinstance(fl, ms.Enum) and fl.discr == 1 and fl.payloads["Some"].f[0] is True
                            ask(pc, flags[nm] != z3.BoolVal(is_true), "P:c07.request_carries_the_flags_of_the_call_mode")
                    else:
                        ask(pc, T, "P:c07.one_message_written_and_flushed")
                # stream ownership afterwards
                own_call = z3.And(holds(s2.f[3], CR), holds(s2.f[4], CW), z3.Not(present(c2.f[0])), z3.Not(present(c2.f[1])))
                own_conn = z3.And(holds(c2.f[0], CR), holds(c2.f[1], CW))
                ask(pc, z3.Not(z3.If(flags["oneway"], own_conn, own_call)), "P:c07.stream_ownership_after_send")
            else:
                if kind in ("MethodCalledAlready", "ConnectionBusy"):
                    ask(pc, z3.Not(conn_same), "P:c07.refused_send_leaves_the_connection_untouched")
                ask(pc, z3.And(has, free, all_ok), "P:c07.send_on_a_free_connection_succeeds")
                if not writes and kind == "ConnectionBusy":
                    pass
        else:
            owns = z3.And(sr_p == 1, sw_p == 1)
            kind = err_kind(ret) if not is_ok(ret) else None
            reads = [e for e in evs if e[0] == "read"]
            if kind == "IteratorOldReply":
                seen["refused"] = True
                ask(pc, owns, "P:c07.old_reply_only_when_the_call_does_not_own_the_stream")
                ask(pc, z3.Not(conn_same), "P:c07.refused_recv_leaves_the_connection_untouched")
                if reads:
                    ask(pc, T, "P:c07.refused_recv_reads_nothing")
            else:
                ask(pc, z3.Not(owns), "P:c07.recv_without_the_stream_fails")
            got_reply = bool(reads) and reads[-1][1] == "message"
            parsed = z3.Int("from_slice_%d" % 0)  # the first fallible call of recv
            rc_p, rc_v = z3.Int("reply_continues_present"), z3.Bool("reply_continues_value")
            re_p = z3.Int("reply_error_present")
            more_coming = z3.And(rc_p == 1, rc_v)
            if is_ok(ret):
                seen["ok"] = True
                ask(pc, z3.Not(z3.And(owns, re_p == 0)), "P:c07.success_only_for_a_reply_without_error")
            if kind == "FromReply":
                ask(pc, re_p == 0, "P:c07.error_outcome_only_for_a_reply_with_error")
            if got_reply and kind not in ("IteratorOldReply", "ConnectionClosed") and not str(kind).startswith("Foreign:from_slice") and not str(kind).startswith("Foreign:read"):
                # a reply was parsed: continues flag and stream ownership follow it
                cont_after = s2.f[5]
                stay = z3.And(holds(s2.f[3], SR), holds(s2.f[4], SW), z3.Not(present(c2.f[0])), z3.Not(present(c2.f[1])))
                back = z3.And(holds(c2.f[0], SR), holds(c2.f[1], SW), z3.Not(present(s2.f[3])), z3.Not(present(s2.f[4])))
                if isinstance(cont_after, bool):
                    ask(pc, more_coming != z3.BoolVal(cont_after), "P:c07.continues_follows_the_reply")
                else:
                    ask(pc, T, "P:c07.continues_follows_the_reply")
                ask(pc, z3.Not(z3.If(more_coming, stay, back)), "P:c07.connection_is_free_again_after_the_final_reply")
                # outcome: error member <=> Err built from the reply
                if kind != "FromReply" and not is_ok(ret):
                    ask(pc, z3.And(re_p == 0, all_ok), "P:c07.reply_without_error_is_a_success")
                if kind != "FromReply":
                    ask(pc, re_p == 1, "P:c07.reply_with_error_is_an_error_outcome")
    res = {"verdict": "pass", "reason": "", "checks_failed": [], "playback": [], "failed_labels": [],
           "checks_total": queries, "verification_time_s": round(time.time() - t0, 2), "oracle_ok": [], "covers": [],
           "covers_unsat": []}
    if failed:
        label, w, _clean = failed
        vals = [0 if fn == "send" else 1, w["conn_reader"], w["conn_writer"], w["call_reader"], w["call_writer"], w["call_request"],
                w["call_method"], int(w.get("oneway", False)), int(w.get("more", False)), int(w.get("upgrade", False)),
                w["read_outcome"], w["reply_continues_present"], int(w["reply_continues_value"]), w["reply_error_present"],
                w["reply_parameters_present"]]
        res.update(verdict="violation", failed_labels=[label], witness=w, playback=[[vals]])
    else:
        res["oracle_ok"] = ["P:c07.%s: all clauses" % fn]
        res["covers"] = [{"desc": "a path that succeeds", "status": "SATISFIED" if seen["ok"] else "UNSATISFIABLE"},
                         {"desc": "a path that refuses (busy / called already / old reply)", "status": "SATISFIED" if seen["refused"] else "UNSATISFIABLE"}]
        res["covers_unsat"] = [c["desc"] for c in res["covers"] if c["status"] != "SATISFIED"]
        if res["covers_unsat"]:
            res.update(verdict="inconclusive", reason="vacuous: cover not satisfied: %s" % res["covers_unsat"])
    res["detail"] = {"paths": len(finished), "models_used": sorted(ex.models_used)}
    return res


# ---------------------------------------------------------------- error name -> ErrorKind

STANDARD = [("org.varlink.service.InterfaceNotFound", "InterfaceNotFound"), ("org.varlink.service.InvalidParameter", "InvalidParameter"),
            ("org.varlink.service.MethodNotFound", "MethodNotFound"), ("org.varlink.service.MethodNotImplemented", "MethodNotImplemented")]


def run_error_kind(repo, timeout_s):
    t0 = time.time()
    mir = dump_mir(repo)
    params, blocks = ms.find_function(mir, IMPL + "::from", r"^_1: Reply$")
    ids = {"": 0}

    def sid(x):
        if isinstance(x, str):
            if x not in ids:
                ids[x] = 1000 + len(ids)
            return z3.IntVal(ids[x])
        return x
    name = z3.Int("error_name")
    field = z3.Int("field_value")
    err_p, par_p, parse, fld_p = z3.Int("error_present"), z3.Int("parameters_present"), z3.Int("parse"), z3.Int("field_present")
    base = [z3.And(d >= 0, d <= 1) for d in (err_p, par_p, parse, fld_p)] + [field >= 1, field < 1000, name >= 1]
    PARAMS = ms.Opaque("reply parameters")
    reply = ms.Struct({0: ms.Enum(z3.Int("continues_present"), {"Some": ms.Struct({0: z3.Bool("cv")})}),
                       1: ms.Enum(err_p, {"Some": ms.Struct({0: name})}),
                       2: ms.Enum(par_p, {"Some": ms.Struct({0: PARAMS})})}, "Reply")

    def m_eq(ex, path, a):
        x = ex.load(path, ex.load(path, a[0]))
        y = ex.load(path, ex.load(path, a[1]))
        return sid(x) == sid(y)

    def m_from_value(ex, path, a):
        return ms.Enum(parse, {"Ok": ms.Struct({0: ms.Struct({0: ms.Enum(fld_p, {"Some": ms.Struct({0: field})})}, "ErrorParams")}),
                               "Err": ms.Struct({0: ms.Opaque("serde error")})})

    def m_unwrap_or_default(ex, path, a):
        o = a[0]
        if not isinstance(o, ms.Enum):
            raise Unsupported("unwrap_or_default of %r" % (o,))
        if isinstance(o.discr, int):
            return o.payloads["Some"].f[0] if o.discr == 1 else z3.IntVal(0)
        return z3.If(o.discr == 1, sid(o.payloads["Some"].f[0]), z3.IntVal(0))

    def m_string_new(ex, path, a):
        return z3.IntVal(0)
    models_ = [(r"<&Cow<'_, str> as PartialEq<&str>>::eq$", m_eq), (r"^from_value::<Error\w+>$", m_from_value),
               (r"Option::<std::string::String>::unwrap_or_default$", m_unwrap_or_default), (r"^std::string::String::new$", m_string_new)]
    solver = z3.Solver()
    solver.set("timeout", max(1000, int(timeout_s * 1000 / 4)))
    ex = ms.Exec(blocks, models_, solver, base)
    import re
    hm = re.search(r"^fn (<impl at [^>]*>)::from\(_1: Reply\)", mir, re.M)
    if not hm:
        raise Unsupported("header of ErrorKind::from")
    ex.promoted = ms.find_promoted(mir, re.escape(hm.group(1)) + "::from")
    finished = ex.run({params[0]: reply})
    if not finished:
        raise Unsupported("no returning path")
    queries = ex.queries
    failed = None
    seen = set()

    def ask(pc, neg, label):
        nonlocal queries, failed
        solver.push(); solver.add(*base); solver.add(*pc); solver.add(neg)
        queries += 1
        r = solver.check()
        if r == z3.sat and failed is None:
            m = solver.model()
            ev = lambda t: m.eval(t, model_completion=True).as_long()  # noqa: E731
            nm = ev(name)
            idx = next((i for i, (full, _) in enumerate(STANDARD) if ids.get(full) == nm), 4)
            text = next((k for k, v in ids.items() if v == nm and k), "")
            failed = (label, [2, idx, ev(err_p), ev(par_p), 1 - ev(parse), ev(fld_p)] +
                      ([len(text.encode())] + list(text.encode()) if idx == 4 and text else [0]))
        solver.pop()
        if r == z3.unknown:
            raise Unsupported("solver gave no answer")
    for full, _ in STANDARD:
        sid(full)
    for path, ret in finished:
        if not isinstance(ret, ms.Enum) or not isinstance(ret.discr, str):
            raise Unsupported("from returns %r" % (ret,))
        var = ret.discr
        seen.add(var)
        payload = ret.payloads[var].f.get(0)
        std = dict((v, full) for full, v in STANDARD)
        if var in std:
            ask(path.pc, z3.Not(z3.And(err_p == 1, name == sid(std[var]))), "P:c07.standard_error_kind_only_for_its_error_name")
            want = z3.If(z3.And(par_p == 1, parse == 0, fld_p == 1), field, z3.IntVal(0))
            ask(path.pc, sid(payload) != want, "P:c07.standard_error_carries_its_parameter")
        elif var == "VarlinkErrorReply":
            ask(path.pc, z3.And(err_p == 1, z3.Or(*[name == sid(full) for full, _ in STANDARD])), "P:c07.standard_error_name_maps_to_its_kind")
            if not (isinstance(payload, ms.Struct) and payload.tag == "Reply"):
                ask(path.pc, z3.BoolVal(True), "P:c07.other_error_carries_the_full_reply")
        else:
            ask(path.pc, z3.BoolVal(True), "P:c07.standard_error_name_maps_to_its_kind")
    res = {"verdict": "pass", "reason": "", "checks_failed": [], "playback": [], "failed_labels": [],
           "checks_total": queries, "verification_time_s": round(time.time() - t0, 2), "oracle_ok": [], "covers": [], "covers_unsat": []}
    if failed:
        res.update(verdict="violation", failed_labels=[failed[0]], playback=[[failed[1]]])
    else:
        res["oracle_ok"] = ["P:c07.standard_error_kind_only_for_its_error_name", "P:c07.standard_error_carries_its_parameter",
                            "P:c07.standard_error_name_maps_to_its_kind", "P:c07.other_error_carries_the_full_reply"]
        want = {v for _, v in STANDARD} | {"VarlinkErrorReply"}
        res["covers"] = [{"desc": "every ErrorKind variant the mapping can produce is produced on some path",
                          "status": "SATISFIED" if want <= seen else "UNSATISFIABLE"}]
        res["covers_unsat"] = [c["desc"] for c in res["covers"] if c["status"] != "SATISFIED"]
        if res["covers_unsat"]:
            res.update(verdict="inconclusive", reason="vacuous: %s" % res["covers_unsat"])
    res["detail"] = {"paths": len(finished), "models_used": sorted(ex.models_used)}
    return res


def main():
    ap = argparse.ArgumentParser()
    ap.add_argument("--repo", required=True)
    ap.add_argument("--instance", required=True)
    ap.add_argument("--out", required=True)
    ap.add_argument("--replayer")
    ap.add_argument("--timeout", type=int, default=900)
    a = ap.parse_args()
    t0 = time.time()
    try:
        res = run_error_kind(a.repo, a.timeout) if a.instance == "c07_error_kind" else run(a.instance, a.repo, a.timeout)
    except Unsupported as e:
        res = {"verdict": "inconclusive", "reason": "outside the MIR reader / the callee models: %s" % e,
               "checks_total": 0, "checks_failed": [], "oracle_ok": [], "covers": [], "covers_unsat": [],
               "verification_time_s": None, "playback": []}
    except Exception as e:  # noqa
        import traceback
        res = {"verdict": "inconclusive", "reason": "executor error: %s" % e, "trace": traceback.format_exc(),
               "checks_total": 0, "checks_failed": [], "oracle_ok": [], "covers": [], "covers_unsat": [],
               "verification_time_s": None, "playback": []}
    res["wall_s"] = round(time.time() - t0, 1)
    res["harness"] = a.instance
    with open(a.out, "w") as fh:
        json.dump(res, fh, indent=1)
    print(json.dumps({k: v for k, v in res.items() if k not in ("detail",)}))


if __name__ == "__main__":
    main()
