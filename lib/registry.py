"""Check registry: per claimed property, the Kani harnesses that decide it, their bounds,
stubs and the real functions they encode."""

STUB_SER = [
    "serde_json::to_string -> recording serializer (runs the real Serialize impls, returns a 3-byte tag)",
    "serde_json::to_value -> recording serializer (returns an opaque non-null Value)",
]
STUB_FMT = ["alloc::fmt::format -> String::new()"]

COMMON_ASSUMPTIONS = [
    "Kani 0.68 / CBMC 6.11 model the dev profile (debug assertions, overflow checks on) of the compiled MIR",
    "CBMC pointer-validity checks are switched off (--no-memory-safety-checks): the code under check is safe Rust; "
    "Rust-level panics (bounds, overflow, unwrap, explicit asserts) remain checked assertions",
    "unwinding assertions are on: a loop or recursion bound that is too small makes the run inconclusive, never a pass",
    "a counterexample is reported only after it reproduces natively (real serde_json, no stubs) on the same source copy",
]


def H(name, mod="verif_lib::c04", package="varlink", tiers=("quick", "thorough"), timeout=(900, 3600), **kw):
    d = {"name": name, "mod": mod, "package": package, "tiers": tiers, "timeout": timeout}
    d.update(kw)
    return d


CHECKS = {}

CHECKS["C04"] = {
    "design_ref": "3/C04",
    "harnesses": [
        H("c04_reply_paths", mod="verif_lib::c04",
          functions=["varlink::Call::reply_struct", "varlink::Call::reply_parameters",
                     "varlink::CallTrait::reply_method_not_found", "varlink::CallTrait::reply_method_not_implemented",
                     "varlink::CallTrait::reply_invalid_parameter", "varlink::Call::reply_interface_not_found",
                     "varlink::Call::is_oneway", "varlink::Call::wants_more"],
          symbolic="more/oneway/upgrade in {absent,false,true}, Call.continues, reply path selector (8 paths)",
          bounds="all 27 flag combinations x continues x 8 library reply paths; one reply per call; unwind 12",
          stubs=STUB_SER + STUB_FMT),
    ],
    "assumptions": [
        "writer is an in-memory recorder whose write_all/flush never fail",
    ],
}
