"""Check registry: per claimed property, the Kani harnesses that decide it, their bounds,
stubs and the real functions they encode."""

STUB_SER = [
    "serde_json::to_string -> recording serializer (runs the real Serialize impls, returns a 3-byte tag)",
    "serde_json::to_value -> recording serializer (returns an opaque non-null Value)",
]
STUB_FMT = ["alloc::fmt::format -> String::new()"]

COMMON_ASSUMPTIONS = [
    "Kani 0.68 / CBMC 6.11 model the dev profile (debug assertions, overflow checks on) of the compiled MIR",
    "CBMC pointer-validity checks are switched off (--no-memory-safety-checks): the code under check is safe Rust; "
    "Rust-level panics (bounds, overflow, unwrap, explicit asserts) remain checked assertions",
    "unwinding assertions are on: a loop or recursion bound that is too small makes the run inconclusive, never a pass",
    "a counterexample is reported only after it reproduces natively (real serde_json, no stubs) on the same source copy",
]


def H(name, mod="verif_lib::c04", package="varlink", tiers=("quick", "thorough"), timeout=(900, 3600), **kw):
    d = {"name": name, "mod": mod, "package": package, "tiers": tiers, "timeout": timeout}
    d.update(kw)
    return d


CHECKS = {}

CHECKS["C04"] = {
    "design_ref": "3/C04",
    "harnesses": [
        H("c04_reply_paths", mod="verif_lib::c04",
          functions=["varlink::Call::reply_struct", "varlink::Call::reply_parameters",
                     "varlink::CallTrait::reply_method_not_found", "varlink::CallTrait::reply_method_not_implemented",
                     "varlink::CallTrait::reply_invalid_parameter", "varlink::Call::reply_interface_not_found",
                     "varlink::Call::is_oneway", "varlink::Call::wants_more"],
          symbolic="more/oneway/upgrade in {absent,false,true}, Call.continues, reply path selector (8 paths)",
          bounds="all 27 flag combinations x continues x 8 library reply paths; one reply per call; unwind 12",
          stubs=STUB_SER + STUB_FMT, witness="search"),
    ],
    "assumptions": [
        "writer is an in-memory recorder whose write_all/flush never fail",
    ],
}

STUB_POOL = [
    "varlink::server::Worker::new -> ghost counter, returns Worker{thread: None} (Kani has no threads)",
    "std::sync::mpsc::Sender::send -> ghost counter (send crashes kani-compiler 0.68: ICE intrinsics.rs:243)",
]

CHECKS["C14"] = {
    "design_ref": "3/C14",
    "harnesses": [
        H("c14_execute_step", mod="server::verif_server::c14", timeout=(600, 1800),
          functions=["varlink::server::ThreadPool::execute", "varlink::server::ThreadPool::num_busy"],
          symbolic="workers, max, unfinished connections (each <= 5) constrained by the representation invariant",
          bounds="one acceptor step from every pool state with counters <= 5 that satisfies the invariant; unwind 8",
          stubs=STUB_POOL),
        H("c14_execute_step_b8", mod="server::verif_server::c14", tiers=("thorough",), timeout=(600, 3600),
          functions=["varlink::server::ThreadPool::execute", "varlink::server::ThreadPool::num_busy"],
          symbolic="workers, max, unfinished connections (each <= 8) constrained by the representation invariant",
          bounds="one acceptor step from every pool state with counters <= 8 that satisfies the invariant; unwind 12",
          stubs=STUB_POOL),
        H("c14_new_establishes_invariant", mod="server::verif_server::c14", timeout=(600, 1800),
          functions=["varlink::server::ThreadPool::new"],
          symbolic="initial, max in 1..=5",
          bounds="initial, max <= 5; unwind 8", stubs=STUB_POOL[:1]),
        H("c14_worker_protocol", mod="server::verif_server::c14", timeout=(600, 1800),
          functions=["varlink::server::Worker::new (the worker closure, run inline)"],
          symbolic="busy counter before the job (1..=5)",
          bounds="one job followed by Terminate; unwind 4",
          stubs=["std::thread::spawn -> runs the closure inline (sequentialised)",
                 "std::sync::mpsc::Receiver::recv -> pops a scripted message queue [NewJob(job), Terminate]"]),
    ],
    "assumptions": [
        "thread schedules are abstracted: the acceptor step and the worker steps are each checked as atomic steps "
        "from an arbitrary state satisfying the invariant (workers <= max and workers >= min(unfinished, max)); "
        "any interleaving is a sequence of such steps because every access to the shared counter is inside the "
        "RwLock critical sections; liveness (an idle worker eventually dequeues) is assumed from the OS scheduler",
        "precondition: initial_worker_threads <= max_worker_threads",
    ],
}

STUB_HANDLE = STUB_SER + STUB_FMT + [
    "serde_json::from_slice -> scripted deserializer: the k-th message is answered by a pre-drawn script (an error "
    "value of category Io, Eof - built by serde_json's own from_reader on an empty input - or Data - built by "
    "serde_json's de::Error::custom; or an object with the "
    "drawn members) that drives the real derived Deserialize visitor of Request",
    "serde_json::from_value -> scripted deserializer driving the real Deserialize impl of the argument struct",
    "std::io::BufReader::new -> BufReader::with_capacity(4, _) (same code, 4-byte instead of 8 KiB buffer)",
    "core::slice::memchr::{memchr,memrchr} -> naive byte loops (std's word-at-a-time versions use pointer alignment tricks)",
    "alloc::string::String::from_utf8_lossy -> empty string (only used to fill the SerdeJsonDe error text)",
    "std::hash::RandomState::new -> fixed keys (empty HashMap only)",
    "<serde_json::Value as Clone>::clone -> shallow clone of scalar values (compound values are a reported failure)",
    "varlink::Call::reply_interface_not_found -> model that checks its argument and writes one tagged reply (the real "
    "function is a C04 reply path)",
    "varlink::VarlinkService::call (private table lookup + dispatch) -> model that records the interface name and "
    "runs a scripted method implementation; the real function is verified by the C03 harnesses",
]

# per-loop unwind bounds for the handle-level harnesses (default bound: the harness's
# #[kani::unwind]); the long ones are comparisons / searches over the 43-byte method names
# Recursive drop glue of serde_json::Value and the BTreeMap loops behind it are only reachable
# under infeasible guards (the harness values are scalars) but CBMC cannot see that once a
# discriminant is an if-then-else; they are cut at depth 1 / 2 iterations. Unwinding
# assertions stay on, so a feasible deeper path would be reported.
VALUE_CUTS = [("rec:drop_glue::<serde_json::Value>$", 1),
              ("rec:drop_glue::<.*BTreeMap<.*serde_json::Value", 1),
              ("rec:drop_glue::<.*Vec<serde_json::Value", 1),
              ("rec:drop_glue::<.*btree.*serde_json::Value", 1),
              (r"collections::btree::", 2)]

HANDLE_FUNCS = ["<varlink::VarlinkService as varlink::ConnectionHandler>::handle", "varlink::Call::new",
                "<varlink::VarlinkService as varlink::Interface>::call", "varlink::Call::reply_struct",
                "varlink::Call::reply_parameters", "varlink::Call::reply_interface_not_found",
                "varlink::CallTrait::reply_method_not_found", "varlink::CallTrait::reply_invalid_parameter",
                "derive(Deserialize) for varlink::Request", "std::io::BufReader (real, small capacity)"]


# drop glue of error values (Box<dyn Error> chains: CBMC tries every implementor) is cut at depth 1 as well;
# the real code never drops an error inside handle(), but a changed handle() may
ERROR_CUTS = [("rec:drop_glue::<(error::Error|std::io::Error|serde_json::Error|serde_json::error::ErrorImpl|"
               "serde_json::error::ErrorCode|core::io::error|std::boxed::Box<dyn std::error::Error)", 1)]
# handle() wraps its `&mut dyn BufRead` argument in a BufReader, which is itself a `dyn BufRead` candidate: when
# CBMC loses track of the vtable pointer it expands BufReader-in-BufReader recursively (DESIGN P6). The harness
# reader is never a BufReader, so one level is exact; the unwinding assertion would fail otherwise.
BUFREAD_CUTS = [(r"rec:BufReader<&mut dyn std::io::BufRead> as std::io::(Read|BufRead)>::", 1),
                (r"rec:impl std::io::(Read|BufRead) for &mut &?m?u?t? ?dyn std::io::BufRead", 1),
                (r"rec:Buffer::fill_buf::<&mut &mut dyn std::io::BufRead>", 1),
                (r"rec:default_read_buf_exact::<std::io::BufReader<&mut dyn", 1)]
HANDLE_LOOPS = ([("=memcmp.0", 12), (r"memchr::memrchr", 8), (r"tagser::key_eq", 12), (r"tagser::pack", 10),
                 # serde_json::Error::custom looks for " at line " in its message (Data-category error values)
                 (r"TwoWaySearcher", 12), (r"pattern::StrSearcher", 12)]
                + VALUE_CUTS + ERROR_CUTS + BUFREAD_CUTS)


def handle_h(name, k, what, tiers, timeout=(1500, 3600)):
    return H(name, mod="verif_lib::c01", tiers=tiers, timeout=timeout, functions=HANDLE_FUNCS,
             symbolic="per dispatched message: number of replies the implementation writes (0..2) and its outcome "
                      "(Ok / Err / upgrade)",
             bounds="%d pipelined message(s) %s; concrete framing ('m' NUL per message, 1-byte incomplete tail for "
                    "k <= 2), 4-byte BufReader (refilled mid-stream); unwind 8" % (k, what),
             stubs=STUB_HANDLE, loop_rules=HANDLE_LOOPS, witness="search")


CHECKS["C01"] = {
    "design_ref": "3/C01",
    "harnesses": [
        handle_h("c01_k1_d", 1, "[dispatched]", ("quick", "thorough")),
        handle_h("c01_k1_n", 1, "[method without dot]", ("quick", "thorough")),
        handle_h("c01_k1_e", 1, "[empty method]", ("thorough",)),
        handle_h("c01_k1_d_flags", 1, "[dispatched, request carrying more=true, oneway=false]", ("quick", "thorough")),
        handle_h("c01_k2_dd", 2, "[dispatched, dispatched]", ("quick", "thorough")),
        handle_h("c01_k2_dd_flags2", 2, "[dispatched, dispatched], requests carrying more=false, oneway=true, upgrade=true",
                 ("thorough",)),
        handle_h("c01_k2_nd", 2, "[no dot, dispatched]", ("quick", "thorough")),
        handle_h("c01_k2_dn", 2, "[dispatched, no dot]", ("quick", "thorough")),
        handle_h("c01_k2_ed", 2, "[empty method, dispatched]", ("thorough",)),
        handle_h("c01_k1_u", 1, "[unregistered interface]", ("thorough",)),
        handle_h("c01_k2_ud", 2, "[unregistered interface, dispatched]", ("quick", "thorough")),
        handle_h("c01_k2_du", 2, "[dispatched, unregistered interface]", ("thorough",)),
        handle_h("c01_k3_dud", 3, "[dispatched, unregistered interface, dispatched]", ("thorough",)),
        handle_h("c01_k2_nn", 2, "[no dot, no dot]", ("thorough",)),
        handle_h("c01_k3_ddd", 3, "[dispatched x3]", ("quick", "thorough")),
        handle_h("c01_k2_err_first", 2, "[dispatched, dispatched], the first implementation returns Err (constant)", ("quick", "thorough")),
        handle_h("c01_k3_err_second", 3, "[dispatched x3], first Ok, second returns Err (constants)", ("thorough",)),
        handle_h("c01_k2_upgrade_first", 2, "[dispatched, dispatched], the first implementation upgrades (constant)", ("thorough",)),
        handle_h("c01_k3_dnd", 3, "[dispatched, no dot, dispatched]", ("thorough",)),
    ],
    "assumptions": [
        "compositional: handle() is checked against a model of the private VarlinkService::call (checks the interface "
        "name and the request it is given, writes 0..2 replies, returns Ok / Err / upgrade); VarlinkService::call and "
        "the built-in interface are checked against their own contracts by the C03 harnesses, the reply writers by "
        "C04 / C05",
        "constants of each harness instance (enumerated, not solver-chosen): number of messages, which loop path each "
        "method name selects, the request flags. Reason: any symbolic input to the derived Deserialize visitor makes "
        "CBMC merge Ok/Err results, after which it cannot fold enum discriminants and executes drop glue of garbage "
        "serde_json::Value objects (DESIGN section 2, probes s0-s2)",
        "framing is concrete (message boundaries at fixed offsets): symbolic message lengths through BufReader/Vec are "
        "beyond CBMC (probe: 4 symbolic bytes, no verdict in 18 min / 18 GB)",
        "for Option members of Request an absent member and a null member are the same (serde_derive semantics)",
        "more than 3 messages per handle() call: the loop carries no state between iterations other than the reader",
        "in-memory reader/writer never fail",
    ],
}

STUB_SERDE_MODEL = [
    "serde_json text/bytes layer -> recording serializer + scripted deserializer at the serde data-model level: the "
    "real Serialize / Deserialize impls of /repo run; serde_json's own formatting and tokenizing do not",
]


def c17_h(name, what, bounds, tiers=("quick", "thorough"), timeout=(900, 3600), extra_stubs=()):
    return H(name, mod="verif_lib::c17", tiers=tiers, timeout=timeout,
             functions=[what], symbolic=bounds, bounds=bounds + "; unwind 12",
             stubs=STUB_SERDE_MODEL + STUB_FMT + list(extra_stubs))


HASH_STUBS = ["std::hash::RandomState::new -> fixed keys",
              "<DefaultHasher as Hasher>::{write,write_str,finish} -> constant hash (any hash function preserves "
              "HashSet semantics; SipHash on symbolic data does not finish)"]

CHECKS["C17"] = {
    "design_ref": "3/C17",
    "harnesses": [
        c17_h("c17_request_p0", "derive(Serialize, Deserialize) for varlink::Request",
              "flags in {unset,false,true}, method <= 3 printable ASCII bytes, parameters absent"),
        c17_h("c17_request_p1", "derive(Serialize, Deserialize) for varlink::Request",
              "flags in {unset,false,true}, method <= 3 printable ASCII bytes, parameters null"),
        c17_h("c17_request_p2", "derive(Serialize, Deserialize) for varlink::Request",
              "flags in {unset,false,true}, method <= 3 printable ASCII bytes, parameters true"),
        c17_h("c17_reply_p0", "derive(Serialize, Deserialize) for varlink::Reply",
              "continues in {unset,false,true}, error unset or <= 3 bytes, parameters absent"),
        c17_h("c17_reply_p1", "derive(Serialize, Deserialize) for varlink::Reply",
              "continues in {unset,false,true}, error unset or <= 3 bytes, parameters null"),
        c17_h("c17_reply_p2", "derive(Serialize, Deserialize) for varlink::Reply",
              "continues in {unset,false,true}, error unset or <= 3 bytes, parameters true"),
        c17_h("c17_serviceinfo", "derive(Serialize, Deserialize) for varlink::ServiceInfo",
              "four strings <= 3 bytes, 0..2 interfaces"),
        c17_h("c17_description_reply", "derive(Serialize, Deserialize) for varlink::GetInterfaceDescriptionReply",
              "description unset or <= 3 bytes"),
        c17_h("c17_stringset_deserialize", "<varlink::StringHashSet as Deserialize>::deserialize (hand-written visitor)",
              "object with any subset of the members a, b, each an empty object; strict MapAccess protocol",
              timeout=(900, 3600), extra_stubs=["std::collections::HashSet::insert -> ghost counter recording the inserted "
                                               "element (hashbrown's insert is not the subject)"]),
        c17_h("c17_stringset_serialize_empty", "<varlink::StringHashSet as Serialize>::serialize (hand-written)",
              "the empty set (no solver-chosen input: one concrete obligation)", timeout=(900, 3600),
              extra_stubs=["std::hash::RandomState::new -> fixed keys"]),
        c17_h("c17_stringset_serialize", "<varlink::StringHashSet as Serialize>::serialize (hand-written)",
              "set with 0 or 1 element", tiers=("thorough",), timeout=(3600, 7200), extra_stubs=HASH_STUBS),
    ],
    "assumptions": [
        "the three deserialization entry points differ only in how strictly they enforce serde's MapAccess protocol; "
        "the strict one (text, bytes) is modelled; from_value is the lenient one and accepts whatever the strict one accepts",
        "serde_json's own escaping / number formatting / tokenizing (third-party) is outside the claim",
        "string contents: printable ASCII without characters that need JSON escaping",
    ],
}

CHECKS["C05"] = {
    "design_ref": "3/C05",
    "harnesses": [
        H("c05_gate", mod="verif_lib::c05", timeout=(1200, 3600),
          functions=["varlink::Call::reply_struct", "varlink::Call::set_continues", "varlink::Call::wants_more",
                     "varlink::Call::is_oneway"],
          symbolic="more/oneway/upgrade in {absent,false,true}; script of 0..3 ops over {set_continues(true), "
                   "set_continues(false), reply, reply_error}",
          bounds="all 27 flag combinations x all 4^3 scripts of length <= 3; unwind 12",
          stubs=STUB_SER + STUB_FMT, witness="search"),
    ],
    "assumptions": [
        "c05_gate (Kani) is the server half; the client half (MethodCall::more / next / call / recv) reads through "
        "BufReader<Box<dyn Read>>, which CBMC does not reach (DESIGN P7, P13): it is decided on the rustc MIR by the "
        "c05_next / c05_more / c05_call / c07_recv instances instead",
        "writer never fails (c05_gate)",
    ],
}

CHECKS["C16"] = {
    "design_ref": "3/C16",
    "harnesses": [
    ] + [
        H(n, mod="server::verif_server::c16", tiers=t, timeout=(1500, 3600),
          functions=["varlink::server::activation_listener"],
          symbolic="LISTEN_FDS and LISTEN_PID: absent or present with symbolic characters out of [0-9+- x]; own pid = 77",
          bounds="LISTEN_PID 2 characters, LISTEN_FDS 2 characters unless stated; LISTEN_FDNAMES " + d +
                 " (constants of the instance); unwind 16",
          stubs=["std::env::var -> the drawn environment", "std::process::id -> 77",
                 "core::slice::memchr::memchr -> naive byte loop"])
        for n, d, t in [("c16_activation_nonames", "absent", ("quick", "thorough")),
                        ("c16_activation_names0", "= varlink", ("quick", "thorough")),
                        ("c16_activation_names1", "= a:varlink", ("quick", "thorough")),
                        ("c16_activation_names2", "= a:b", ("thorough",)),
                        ("c16_activation_names5", "= a:b:varlink", ("thorough",)),
                        ("c16_activation_names6", "= varlinkx:varlink", ("quick", "thorough")),
                        ("c16_activation_names7", "= a:varlinkx", ("quick", "thorough")),
                        ("c16_activation_names8", "= xvarlink:b", ("thorough",)),
                        ("c16_activation_fds1_nonames", "absent, LISTEN_FDS one character", ("quick", "thorough")),
                        ("c16_activation_fds1_names1", "= a:varlink, LISTEN_FDS one character", ("thorough",)),
                        ("c16_activation_fds0", "absent, LISTEN_FDS empty", ("thorough",))]
    ] + [
        H("c16_scheme", mod="server::verif_server::c16", timeout=(1800, 3600),
          functions=["varlink::Listener::new", "varlink::varlink_connect"],
          symbolic="address: 8 characters out of [t c p : u n i x @ ;]",
          bounds="8-byte addresses; no activation; unwind 12",
          stubs=["TcpListener::bind, TcpStream::connect, UnixListener::bind, UnixStream::connect, fs::remove_file, "
                 "get_abstract_unixlistener, get_abstract_unixstream -> record which transport is reached with which "
                 "name, return an I/O error", "activation_listener -> None", "memchr -> naive loop",
                 "alloc::fmt::format -> String::new()"]),
    ],
    "assumptions": [
        "reduced claim: the address / activation decision logic in front of the system calls; equivalence of replies "
        "across real transports (kernel, fork/exec) is outside solver reach",
    ],
}

C03_STUBS = STUB_SER + STUB_FMT + [
    "serde_json::from_value -> scripted deserializer driving the real Deserialize impl of GetInterfaceDescriptionArgs",
    "<serde_json::Value as Clone>::clone -> shallow clone of scalar values",
    "std::hash::RandomState::new -> fixed keys (the interface table is empty)",
]


def c03_h(name, fn, what, tiers=("quick", "thorough"), mod="verif_lib::c03", **kw):
    return H(name, mod=mod, tiers=tiers, timeout=(1500, 3600), functions=[fn], symbolic=what, bounds=what + "; unwind 10",
             stubs=C03_STUBS, loop_rules=[("=memcmp.0", 46), (r"tagser::key_eq", 21), (r"tagser::pack", 10),
                                          (r"nde::string_of", 10)] + VALUE_CUTS, **kw)


BUILTIN = "<varlink::VarlinkService as varlink::Interface>::call"
CHECKS["C03"] = {
    "design_ref": "3/C03",
    "harnesses": [
        c03_h("c03_builtin_getinfo", BUILTIN, "vendor, product, version, url: any strings of <= 3 printable bytes"),
        c03_h("c03_builtin_unknown_method", BUILTIN, "method org.varlink.service.Nope"),
        c03_h("c03_builtin_getdesc_noparams", BUILTIN, "GetInterfaceDescription without parameters"),
        c03_h("c03_builtin_getdesc_nonobject", BUILTIN, "GetInterfaceDescription, parameters not an object", tiers=("thorough",)),
        c03_h("c03_builtin_getdesc_emptyobj", BUILTIN, "GetInterfaceDescription, parameters {}", tiers=("thorough",)),
        c03_h("c03_builtin_getdesc_unregistered", BUILTIN,
              "GetInterfaceDescription, interface = any string of <= 3 printable bytes (none registered)"),
        c03_h("c03_builtin_getdesc_service", BUILTIN, "GetInterfaceDescription of org.varlink.service"),
        c03_h("c03_route_service", "varlink::VarlinkService::call", "interface org.varlink.service"),
        c03_h("c03_route_unregistered", "varlink::VarlinkService::call", "interface a.b, empty table"),
        c03_h("c03_route_prefix_of_service", "varlink::VarlinkService::call", "interface org.varlink (prefix of the built-in name)",
              tiers=("thorough",)),
        c03_h("c03_route_empty", "varlink::VarlinkService::call", "empty interface name", tiers=("thorough",)),
    ] + [
        handle_h(n, 1, w, t) for n, w, t in [
            ("c03_split_leading_dot", "[method .M -> interface '']", ("quick", "thorough")),
            ("c03_split_double_dot", "[method a..M -> interface 'a.']", ("quick", "thorough")),
            ("c03_split_trailing_dot", "[method M. -> interface 'M']", ("thorough",)),
            ("c03_split_service", "[method org.varlink.service.GetInfo -> interface org.varlink.service]", ("thorough",)),
        ]
    ],
    "assumptions": [
        "the interface table is empty in every harness: a populated HashMap with a symbolic or even concrete key costs "
        "minutes per lookup in CBMC (hashbrown SIMD group probing; DESIGN P8 and probe_k), so 'a registered interface "
        "is reached exactly' is covered only through the dispatch contract used by the C01 harnesses and natively by "
        "the replayer",
        "method and interface names are constants of each harness instance (enumerated shapes: leading / doubled / "
        "trailing dot, prefix of the built-in name, empty)",
    ],
}
for _h in CHECKS["C03"]["harnesses"]:
    if _h["name"].startswith("c03_split"):
        _h["loop_rules"] = [("=memcmp.0", 30), (r"memchr::memrchr", 30), (r"tagser::key_eq", 30), (r"tagser::pack", 10)] + VALUE_CUTS

CHECKS["C12"] = {
    "design_ref": "3/C12",
    "harnesses": [
        H("c12_error_position", mod="verif_parser::c12", package="varlink_parser", timeout=(1500, 3600),
          functions=["<varlink_parser::IDL as TryFrom<&str>>::try_from (error mapping)", "peg::Parse::position_repr for str",
                     "peg::error::ErrorState::into_parse_error"],
          symbolic="text of 4 bytes over {'a', LF, CR, ' '}; byte offset 0..=4 at which the parser gives up",
          bounds="4-byte texts, every offset; unwind 8",
          stubs=["varlink_parser::varlink_grammar::ParseInterface (peg-generated) -> fails at the drawn offset, error built by "
                 "peg's own ErrorState::into_parse_error", "std::hash::RandomState::new -> fixed keys",
                 "alloc::fmt::format -> String::new()", "core::slice::memchr::memchr -> naive byte loop"],
          witness="search"),
        H("c12_error_position_len6", mod="verif_parser::c12", package="varlink_parser", tiers=("thorough",), timeout=(3600, 7200),
          functions=["<varlink_parser::IDL as TryFrom<&str>>::try_from (error mapping)", "peg::Parse::position_repr for str",
                     "peg::error::ErrorState::into_parse_error"],
          symbolic="text of 6 bytes over {'a', LF, CR, ' '}; byte offset 0..=6 at which the parser gives up",
          bounds="6-byte texts, every offset; unwind 10",
          stubs=["varlink_parser::varlink_grammar::ParseInterface (peg-generated) -> fails at the drawn offset, error built by "
                 "peg's own ErrorState::into_parse_error", "std::hash::RandomState::new -> fixed keys",
                 "alloc::fmt::format -> String::new()", "core::slice::memchr::memchr -> naive byte loop"],
          witness="search"),
    ],
    "assumptions": [
        "reduced claim: the diagnostic arithmetic (line lookup + column). Totality and termination of the peg grammar on "
        "arbitrary Unicode input need ParseInterface on symbolic text, which CBMC does not finish even for 4 bytes "
        "(DESIGN P9); rendering through Display is std's formatting machinery (outside)",
        "texts are ASCII (multi-byte line separators U+2028/U+2029 are not line breaks for either side of the computation)",
    ],
}

# ---------------------------------------------------------------------------------------------
# C11: the peg grammar text is encoded by smt/ (z3) and compared with a fixed reference grammar.
# (Duplicate detection in IDL::from_token: harness/parser/c11.rs, see below.)
import os as _os
import sys as _sys
_sys.path.insert(0, _os.path.join(_os.path.dirname(_os.path.dirname(_os.path.abspath(__file__))), "smt"))
from c11_instances import INSTANCES as _C11  # noqa: E402

C11_FUNCS = ["varlink_parser/src/varlink_grammar.rs: every rule of the peg grammar reachable from ParseInterface "
             "(whitespace, eol_r, comment, eol, wce, field_name, name, interface_name, array, dict, option, btype, type_, "
             "object_field, vstruct, venum, vtypedef, error, method, member, ParseInterface), under rust-peg's "
             "recognition semantics"]
C11_RULE = ("SMT (z3 5.1, QF_BV): the grammar source of /repo is read on every run and turned into its bounded PEG "
            "encoding (ordered choice, possessive repetition, separator back-off, look-ahead: smt/enc.py Peg); the fixed "
            "reference grammar (smt/varlink_ref.py) is encoded under its declarative reading (smt/enc.py Decl). "
            "evaluations = solver queries; one `languages differ` query per text length, unsat = the real grammar accepts "
            "exactly the reference language on every ASCII text of the stated shape; plus one `a repetition matches the "
            "empty string` query per length and two reachability queries. A model is replayed through the real "
            "IDL::try_from natively before it is reported.")


C11_MIR_MODELS = [
    "MIR symbolic execution (smt/mirsym.py): callees are replaced by models with their documented contract:",
    "BTreeMap::new / Vec::new / HashSet::new -> empty association list / sequence / collection",
    "<Vec<T> as IntoIterator>::into_iter, <IntoIter<T> as Iterator>::next -> the elements in order, then None",
    "<Vec<&str> as Deref>::deref + <[&str]>::contains(x) -> some element equals x",
    "Vec::push -> appended at the end",
    "BTreeMap::insert(k, v) -> Some(old value) and the value replaced if an equal key is present, else None and the entry added",
    "HashSet<String>::insert -> the message is recorded (messages are not compared with each other)",
    "fmt::rt::Argument::new_display / fmt::Arguments::new / alloc::fmt::format / must_use -> a message value that remembers "
    "the values it was formatted from",
    "drop, StorageLive/Dead, unwind edges -> no effect (the models do not panic)",
]


def c11_h(name):
    prefix, kmax, suffix, what, tiers, mode = _C11[name]
    return H(name, engine="smt", script="c11.py", tiers=tiers, timeout=(900, 5400), functions=C11_FUNCS,
             symbolic="%s: %d bytes, each any of the 128 ASCII values" % (what, kmax),
             bounds="every text %r + w + %r with |w| = 0..%d over ASCII (128^%d texts for the longest length)" % (
                 prefix, suffix, kmax, kmax),
             stubs=[])


CHECKS["C11"] = {
    "design_ref": "3/C11",
    "rule": C11_RULE,
    "no_common_assumptions": True,
    "harnesses": [
        H("c11_translation_validated", engine="smt", script="c11.py", needs_replayer=True, timeout=(900, 900),
          functions=C11_FUNCS,
          symbolic="none: translator validation. Every string literal the repo's own parser tests pass to IDL::try_from, every "
                   ".varlink file in the repo, fixed edge cases and their single-edit neighbours go through the real parser "
                   "(native build) and through the encoding with concrete bytes; one disagreement makes the whole check "
                   "inconclusive",
          bounds="corpus of a few hundred to a few thousand ASCII texts", stubs=[]),
    ] + [c11_h(n) for n in _C11 if _C11[n][5] == "lang"] + [
        H("c11_ft_%d" % n, engine="smt", script="c11_dup.py", tiers=t, timeout=(900, 3600),
          functions=["varlink_parser::IDL::from_token (rustc MIR, every basic block reachable without unwinding)"],
          symbolic="a list of %d members: the kind (method / type / error) and the name (one of %d) of each are z3 variables" % (n, n),
          bounds="member lists of exactly %d members; names from a pool of %d (enough for all-distinct and every collision pattern)" % (n, n),
          stubs=C11_MIR_MODELS)
        for n, t in ((1, ("quick", "thorough")), (2, ("quick", "thorough")), (3, ("quick", "thorough")),
                     (4, ("quick", "thorough")), (5, ("thorough",)))
    ],
    "assumptions": [
        "reduced claim: syntactic acceptance (IDL::try_from does not return Error::Parse) == membership in the reference "
        "grammar, for the text shapes listed under samples; the reference's lexical rules are the documented varlink "
        "regular expressions, its layout rules (where blanks, comments and line ends may stand) are transcribed from the "
        "pinned grammar and read declaratively",
        "ASCII texts only: the non-ASCII blanks and line separators of the whitespace / eol_r rules are outside",
        "what is encoded is the grammar *text* under rust-peg's documented recognition semantics, not the Rust code the "
        "peg macro expands to; the translator is validated on every run against the real parser (c11_translation_validated)",
        "action blocks of the grammar are not encoded: `mirrors the source` is decided for member kinds, names and order by "
        "the c11_ft_<n> instances on IDL::from_token's MIR, not for field types and documentation strings",
        "c11_ft_<n>: the last step of IDL::try_from (a non-empty error set becomes Err(Error::Idl(sorted messages))) is not "
        "encoded; it is exercised by the native replay of witnesses only",
    ],
}

for _n in _C11:
    if _C11[_n][5] == "progress":
        _h = c11_h(_n)
        _h["functions"] = ["varlink_parser/src/varlink_grammar.rs: every repetition (`*`, `+`, `**`, `++`) of the peg grammar, under "
                           "rust-peg's recognition semantics (smt/enc.py)"]
        CHECKS["C12"]["harnesses"].append(_h)
CHECKS["C12"]["assumptions"].append(
    "c12_progress_*: (z3, on the grammar source text) on no ASCII text of the stated shapes can the body of a repetition match "
    "the empty string - the one way a rust-peg recogniser fails to terminate; recursion depth is bounded by the text length "
    "since every recursive rule consumes a character first (checked: the encoder rejects left recursion)")

# ---------------------------------------------------------------------------------------------
# C19 (reduced): symbolic execution of the certification service's step functions (rustc MIR)
C19_MODELS = [
    "MIR symbolic execution (smt/mirsym.py, smt/c19.py); callees are replaced by contract models:",
    "CertInterface::check_client_id (inside the step functions) -> a free boolean `cid_ok`, arguments recorded; the function "
    "itself is the subject of c19_wrapper / c19_client_state",
    "CallTrait::get_request -> Some(the symbolic request) (a server-side call always carries its request)",
    "serde_json::to_value, new_mytype -> Ok or Err (free); Result::map_err / Try::branch / FromResidual::from_residual -> the `?` contract",
    "serde_json::from_value::<Args> -> Ok(parsed) or Err (free `parse`); <Args as PartialEq>::eq(canonical, parsed) -> free `args_equal`, "
    "after checking that no leaf of the canonical operand is one of the step's own request parameters (client_id apart)",
    "<&Cow<str> as PartialEq<&str>>::eq, <String as PartialEq<&str>>::ne -> equality of string values",
    "Call_*::reply / reply_client_id_error / reply_certification_error / set_continues -> recorded events; reply results Ok or Err (free)",
    "HashMap<String, TestContext>::get_mut(key) -> Some(&mut the entry whose key equals `key`) else None, one successor per case",
    "ClientIds::check_lifetime_timeout -> no effect (no client expires during the step: time is not advanced)",
    "Arc::deref, RwLock::write, Result::unwrap on the guard, DerefMut -> the guarded value (no poisoning)",
    "HashMap / HashSet / Vec / format! used to build canonical values -> opaque values; Range<i32> iteration -> concrete",
]
_C19_STEPS = ["test01", "test02", "test03", "test04", "test05", "test06", "test07", "test08", "test09", "test10", "test11", "end"]


def c19_h(name, functions, symbolic, bounds):
    return H(name, engine="smt", script="c19.py", timeout=(900, 1800), functions=functions, symbolic=symbolic,
             bounds=bounds, stubs=C19_MODELS)


CHECKS["C19"] = {
    "design_ref": "3/C19",
    "rule": ("SMT (z3 5.1) on a path-by-path symbolic execution of rustc MIR (nightly -Zunpretty=mir, dumped from the per-run "
             "copy of /repo; executor smt/mirsym.py): every returning path of the function under check yields a path condition; "
             "for each oracle clause the query `path condition and not clause` must be unsat. evaluations = solver queries "
             "(branch feasibility + oracle). A model is a request shape / table state, replayed against the real "
             "varlink-certification server process (built from the same copy) before it is reported."),
    "no_common_assumptions": True,
    "harnesses": [
        c19_h("c19_client_state", ["varlink-certification: ClientIds::check_client_id (rustc MIR)"],
              "a table of two clients with symbolic ids (distinct) and symbolic states; client id, required state and next state of the call",
              "tables of exactly 2 clients (get_mut is position-independent: one hit, one miss, both misses are all covered)"),
        c19_h("c19_wrapper", ["varlink-certification: CertInterface::check_client_id (rustc MIR)"],
              "the three string arguments", "single path"),
    ] + [
        c19_h("c19_step_" + st, ["varlink-certification: <CertInterface as VarlinkInterface>::%s (rustc MIR, incl. the expanded "
                                 "check_call_* macro)" % st],
              "request flags more / oneway / upgrade each absent, false or true; method; parameters present or not; whether they "
              "deserialize; whether they equal the canonical value; whether the client-id check passes; every fallible "
              "serialization / reply call Ok or Err",
              "all paths of the function (110-175); loops are the concrete `for i in 1..11` / `0..10`")
        for st in _C19_STEPS
    ],
    "assumptions": [
        "reduced claim: per step function - the success reply (for the oneway step: silent Ok) is produced only if the client-id "
        "check passed, the call mode is the step's, the method is the step's, parameters are present, deserialize and equal the "
        "canonical value; conversely such a request gets the success reply; every step checks its own place (TestNN -> TestNN+1, "
        "Test11 -> End) first and once; the client table admits a step iff the client is known and in that state, and advances "
        "only that client",
        "outside: Start (its own inline check), the value comparison itself (serde_json::from_value + derived PartialEq on the "
        "generated types: modelled as free booleans), the generated dispatch code that deserializes parameters before the step "
        "function runs, client-id expiry (time), concurrency of clients (RwLock), the wire",
        "what is executed is the MIR rustc produces for the functions named, with the callee models listed under stubs",
    ],
}

# ---------------------------------------------------------------------------------------------
# C07 (reduced): symbolic execution of MethodCall::send / recv (rustc MIR)
C07_MODELS = [
    "MIR symbolic execution (smt/mirsym.py, smt/c07.py); callees are replaced by contract models:",
    "Arc::deref, RwLock::write, unwrap of the lock result, Deref/DerefMut of the guard -> the Connection (no poisoning, no other thread)",
    "Option::take / is_none / is_some / unwrap -> their definitions on a value whose presence is a z3 variable (unwrap of None = panic event)",
    "Request::create -> a request with no flags set; serde_json::to_value / to_string / from_slice / from_value -> Ok or Err (free); the "
    "serialized text remembers the request's flags; the parsed Reply has free continues / error / parameters members",
    "Write::write_all / flush on the boxed writer -> recorded events, Ok or Err (free); BufRead::read_until -> io error, end of stream "
    "(nothing appended) or one message (one successor path each)",
    "Result::map_err, Try::branch, FromResidual::from_residual, Into/From between error types -> the `?` contract, the error value kept",
    "<ErrorKind as From<Reply>>::from -> a value that remembers the reply it was built from",
]
CHECKS["C07"] = {
    "design_ref": "3/C07",
    "rule": CHECKS["C19"]["rule"].replace("varlink-certification server process (built from the same copy)",
                                          "varlink::Connection / MethodCall objects over in-memory stream halves"),
    "no_common_assumptions": True,
    "harnesses": [
        H("c07_send", engine="smt", script="c07.py", timeout=(900, 1800),
          functions=["varlink::MethodCall::send (rustc MIR; private, reached natively through call / more / oneway / upgrade)"],
          symbolic="presence of the connection's reader and writer, of the call's reader, writer, request and method (each a z3 "
                   "variable, a stream half being in at most one place); oneway / more / upgrade; every fallible serialization "
                   "and I/O call Ok or Err",
          bounds="all 38 returning paths of the function", stubs=C07_MODELS),
        H("c07_recv", engine="smt", script="c07.py", timeout=(900, 1800),
          functions=["varlink::MethodCall::recv (rustc MIR)"],
          symbolic="presence of the call's and the connection's stream halves; the read gives an I/O error, end of stream or a "
                   "message; the parsed reply's continues (absent / false / true), error and parameters members; every fallible "
                   "call Ok or Err",
          bounds="all 20 returning paths of the function", stubs=C07_MODELS),
        H("c07_error_kind", engine="smt", script="c07.py", timeout=(900, 1800),
          functions=["<varlink::ErrorKind as From<varlink::Reply>>::from (rustc MIR)"],
          symbolic="the reply's error name (any string), presence of error / parameters, whether the parameters deserialize into the "
                   "error's parameter struct, presence and value of its field",
          bounds="all 14 returning paths of the function",
          stubs=["MIR symbolic execution; <&Cow<str> as PartialEq<&str>>::eq -> equality of string values; serde_json::from_value::<ErrorX> "
                 "-> Ok(struct with a free optional field) or Err (free); Option<String>::unwrap_or_default, String::new -> their definitions"]),
    ],
    "assumptions": [
        "reduced claim: one thread. (send) a call object is consumed by its first send and a second send fails with "
        "MethodCalledAlready; on a connection whose reader or writer is taken the call fails with ConnectionBusy, writes nothing and "
        "leaves the connection untouched; on a free connection exactly one message is written and flushed, carrying exactly the "
        "flags of the call mode, after which a oneway call leaves the connection free and any other call owns the stream. (recv) "
        "without the stream the call fails (IteratorOldReply) and touches nothing; after a reply with continues=true the call "
        "keeps the stream, after any other reply the stream is back in the connection; the outcome is Ok exactly when the reply "
        "has no error member, and an error built from the reply otherwise",
        "(error kind) the four standard service error names map to their ErrorKind variant carrying the parameter when it is present "
        "and deserializes (else the empty string); every other reply maps to VarlinkErrorReply carrying the reply itself",
        "outside: other threads sharing the connection (the RwLock is modelled as always available), Drop, the "
        "generated client bindings (their own error enums), real sockets",
        "what is executed is the MIR rustc produces for the two functions, with the callee models listed under stubs",
    ],
}

# ---------------------------------------------------------------------------------------------
# C15 (reduced): symbolic execution of varlink::listen's loop (rustc MIR), environment = nondeterministic stubs
C15_MODELS = [
    "MIR symbolic execution (smt/mirsym.py, smt/c15.py); the environment is replaced by nondeterministic stubs:",
    "Listener::accept(wait) -> a connection, a Timeout error (only when wait > 0: accept(0) blocks) or another error - one successor "
    "path each, recorded with the wait it was given; time = the sum of the waits that timed out",
    "AtomicBool::load on the stop flag, ThreadPool::num_busy -> an arbitrary value at every read",
    "ThreadPool::new / execute -> recorded events (the pool itself is the subject of C14); Listener::new / set_nonblocking -> Ok or Err",
    "Option::as_ref / unwrap_or -> their definitions; Option::map(closure) -> the closure's own MIR is executed (the poll quantum)",
    "Arc::new / clone / deref -> aliases; Try::branch / FromResidual -> the `?` contract; Error::kind -> the kind the error was built with",
]
CHECKS["C15"] = {
    "design_ref": "3/C15",
    "rule": CHECKS["C19"]["rule"].replace("varlink-certification server process (built from the same copy)",
                                          "varlink::listen on a unix socket, timed"),
    "no_common_assumptions": True,
    "harnesses": [
        H(n, engine="smt", script="c15.py", tiers=t, timeout=(1500, 5400),
          functions=["varlink::listen (rustc MIR): the accept loop, idle countdown, stop flag, hand-over to the pool"],
          symbolic="idle_timeout (0..%s s); the outcome of every accept; every value read from the stop flag and the busy count" % rng,
          bounds="runs of at most %d accept calls (longer runs are cut and counted); %s" % (k, what), stubs=C15_MODELS)
        for n, t, k, rng, what in (
            ("c15_listen_nostop_8", ("quick", "thorough"), 8, "5", "no stop flag: one wait covers the whole idle time"),
            ("c15_listen_stopflag_11", ("quick", "thorough"), 11, "1", "stop flag configured: 100 ms polls, an idle second is 10 of them"),
            ("c15_listen_nostop_12", ("thorough",), 12, "5", "no stop flag"),
            ("c15_listen_stopflag_13", ("thorough",), 13, "1", "stop flag configured"),
        )
    ],
    "assumptions": [
        "reduced claim: the decision logic of the accept loop. A Timeout error is returned only when the waits that timed out since the "
        "last accepted connection add up to at least idle_timeout and the busy count just read is 0; with a stop flag and "
        "idle_timeout 0 it never times out; Ok is returned only when the stop flag was just read true, and a flag read true ends "
        "the loop at that poll; any other accept error is returned; every accepted connection is handed to the pool before the "
        "next accept",
        "outside: that ThreadPool's drop joins the workers so that listen returns only after all connections are served and no reply "
        "is truncated (drop glue is not executed; C14 covers the pool's scheduling), Listener::drop unlinking the socket path, "
        "select()'s real timing, runs longer than the accept bound",
        "the native confirmation plays four real-time situations (idle server; a held connection; stop flag set; unset stop flag) "
        "against the real varlink::listen rather than the solver's exact trace, which a real kernel cannot be made to follow",
    ],
}

# C03, the populated interface table (MIR engine): what the Kani harnesses leave out (DESIGN B3)
C03_TABLE_MODELS = [
    "MIR symbolic execution (smt/mirsym.py, smt/c03_table.py); callees are replaced by contract models:",
    "HashMap::new / insert (Some(old) and replaced iff an equal key is present) / keys (every key once) / contains_key / Index::index "
    "(panic event if missing) -> association list, one successor per case",
    "Vec IntoIterator / next, Keys::cloned, Vec::extend, the vec! expansion -> sequences; <dyn Interface>::get_name -> the object's name",
    "<dyn Interface>::call, <VarlinkService as Interface>::call, Call::reply_interface_not_found -> recorded events, Ok or Err (free)",
]
for _n, _t in (("c03_table_new_3", ("quick", "thorough")), ("c03_table_new_4", ("thorough",)), ("c03_table_call", ("quick", "thorough"))):
    CHECKS["C03"]["harnesses"].append(
        H(_n, engine="smt", script="c03_table.py", tiers=_t, timeout=(900, 1800),
          functions=["varlink::VarlinkService::new (rustc MIR)"] if "new" in _n else ["varlink::VarlinkService::call (private; rustc MIR)"],
          symbolic=("the names of the %s registered interfaces (z3 values, any may coincide)" % _n[-1]) if "new" in _n else
                   "a table of two interfaces with distinct symbolic names; the interface name of the call",
          bounds="all paths of the function", stubs=C03_TABLE_MODELS))
CHECKS["C03"]["assumptions"].append(
    "c03_table_* (z3 on the MIR of VarlinkService::new / ::call, callee models for HashMap): GetInfo's list is org.varlink.service "
    "followed by every registered name exactly once, the table maps every name to an interface of that name, a call reaches exactly "
    "the interface of its name, the built-in interface only its own name, anything else InterfaceNotFound naming it")

# Duplicate detection / order of appearance in IDL::from_token (harness/parser/c11.rs, not mounted) was attempted
# twice with Kani and is not part of the claim: see DESIGN.md section 3/C11.

CHECKS["C02"] = {
    "design_ref": "3/C02",
    "harnesses": [
        H("c02_cut%d" % c, mod="verif_lib::c01", tiers=t, timeout=(2400, 7200), functions=HANDLE_FUNCS,
          symbolic="per message: number of replies the implementation writes (0..2)",
          bounds="stream 'm' NUL 'm' NUL 't' fed whole vs. in two chunks cut at byte %d (%s), tail re-fed; unwind 12" % (c, d),
          stubs=STUB_HANDLE, loop_rules=HANDLE_LOOPS, witness="search")
        for c, d, t in [(0, "empty first chunk", ("thorough",)), (1, "between the first message and its NUL", ("quick", "thorough")),
                        (2, "on the message boundary", ("quick", "thorough")), (3, "between the second message and its NUL", ("quick", "thorough")),
                        (4, "after the last complete message", ("thorough",)), (5, "whole stream first", ("thorough",))]
    ] + [
        H("c02_upgraded_entry", mod="verif_lib::c01", tiers=("quick", "thorough"), timeout=(1500, 3600), functions=HANDLE_FUNCS,
          symbolic="the 5 bytes of the upgraded stream (arbitrary, NULs included); how many trailing bytes the upgraded "
                   "handler leaves unread (0 or 1)",
          bounds="handle(stream, writer, Some(\"a.b\")) on a 5-byte stream; unwind 10",
          stubs=STUB_HANDLE + ["varlink::VarlinkService::call_upgraded (private table lookup + the interface's upgraded "
                               "handler) -> model that reads the stream to its end through the reader it is given"],
          loop_rules=HANDLE_LOOPS),
        # the upgrade hand-over clause is decided by the C01 harnesses' P:c02.* assertions
        handle_h("c01_k2_dd", 2, "[dispatched, dispatched] (upgrade hand-over clause)", ("quick", "thorough")),
        handle_h("c01_k3_ddd", 3, "[dispatched x3] (upgrade hand-over clause)", ("thorough",)),
        # 'the returned tail is exactly the bytes that follow the last complete message' on the library-answered path
        handle_h("c01_k1_n", 1, "[method without dot] (tail clause)", ("quick", "thorough")),
        handle_h("c01_k2_nd", 2, "[no dot, dispatched] (tail clause)", ("thorough",)),
    ],
    "assumptions": CHECKS["C01"]["assumptions"] + [
        "one cut point per harness instance, every structural position of the cut; k cuts follow by induction on the "
        "single-cut lemma (stated, not checked)",
        "messages larger than the internal buffer: BufReader capacity is 4 here and the 5-byte stream crosses it; the "
        "real 8 KiB capacity is a constant of std",
        "the listen() worker discards the tail handle() returns after an upgrade (server.rs: Ok((_, i))); listen() cannot "
        "be compiled by Kani 0.68 (DESIGN P15), so that call site is outside the check",
    ],
}

CHECKS["C06"] = {
    "design_ref": "3/C06",
    "harnesses": [
        handle_h("c06_k1_malformed", 1, "[malformed]", ("quick", "thorough")),
        handle_h("c06_k2_second_malformed", 2, "[dispatched, malformed]", ("quick", "thorough")),
        handle_h("c06_k2_first_malformed", 2, "[malformed, dispatched]", ("quick", "thorough")),
        handle_h("c06_k1_truncated", 1, "[truncated document: serde_json error category Eof]", ("quick", "thorough")),
        handle_h("c06_k2_first_truncated", 2, "[truncated, dispatched]", ("quick", "thorough")),
        handle_h("c06_k2_second_truncated", 2, "[dispatched, truncated]", ("thorough",)),
        handle_h("c06_k1_wrong_shape", 1, "[valid JSON of the wrong shape: serde_json error category Data]", ("quick", "thorough")),
        handle_h("c06_k2_first_wrong_shape", 2, "[wrong shape, dispatched]", ("quick", "thorough")),
        handle_h("c06_k2_second_wrong_shape", 2, "[dispatched, wrong shape]", ("thorough",)),
        handle_h("c01_k3_ddd_f2", 3, "[dispatched, dispatched, malformed]", ("thorough",)),
    ],
    "assumptions": CHECKS["C01"]["assumptions"] + [
        "reduced claim: the containment logic of handle() around the parser - a message the JSON parser rejects is neither "
        "dispatched nor answered, everything before it is answered, handle() returns Err so that the caller closes the "
        "connection. That serde_json itself returns Err (rather than panicking or overflowing the stack) on hostile bytes "
        "is third-party code CBMC does not finish even on concrete input (DESIGN P1, P11); other connections being "
        "unaffected is the listen() worker (threads, sockets; not compilable by Kani 0.68, DESIGN P15)",
        "the three 'P:c06.*' assertions sit in the harness models of rfind / dispatch / reply_interface_not_found: the first "
        "things handle() does with a parsed request",
    ],
}

# C05, client half: the more-iterator on the rustc MIR (smt/c05_client.py) + the recv instance of C07
C05_CLIENT_MODELS = [
    "MIR symbolic execution (smt/mirsym.py, smt/c05_client.py); MethodCall::send -> recorded with its three flag arguments, Ok or Err "
    "(free); MethodCall::recv -> recorded, returns a marker value and leaves a free boolean in the call's continues flag (their "
    "bodies are decided by c07_send / c07_recv on the same MIR dump); Try::branch / FromResidual -> the `?` contract",
]
_h_c05_client = [
    H("c05_next", engine="smt", script="c05_client.py", timeout=(600, 900),
      functions=["<varlink::MethodCall as Iterator>::next (rustc MIR)"],
      symbolic="the call's continues flag; what recv leaves in it", bounds="all returning paths of the function (2)",
      stubs=C05_CLIENT_MODELS),
    H("c05_more", engine="smt", script="c05_client.py", timeout=(600, 900),
      functions=["varlink::MethodCall::more (rustc MIR)"],
      symbolic="the call's continues flag on entry; send Ok or Err", bounds="all returning paths of the function (2)",
      stubs=C05_CLIENT_MODELS),
    H("c05_call", engine="smt", script="c05_client.py", timeout=(600, 900),
      functions=["varlink::MethodCall::call (rustc MIR)"],
      symbolic="send Ok or Err", bounds="all returning paths of the function (2)", stubs=C05_CLIENT_MODELS),
    [h for h in CHECKS["C07"]["harnesses"] if h["name"] == "c07_recv"][0],
]
_h_modes = [
    H("c04_oneway", engine="smt", script="c05_client.py", timeout=(600, 900),
      functions=["varlink::MethodCall::oneway (rustc MIR)"],
      symbolic="send Ok or Err", bounds="all returning paths of the function (1)", stubs=C05_CLIENT_MODELS),
    H("c07_upgrade", engine="smt", script="c05_client.py", timeout=(600, 900),
      functions=["varlink::MethodCall::upgrade (rustc MIR)"],
      symbolic="send Ok or Err", bounds="all returning paths of the function (2)", stubs=C05_CLIENT_MODELS),
]
CHECKS["C05"]["harnesses"] = CHECKS["C05"]["harnesses"] + _h_c05_client
# C04, client clause: oneway() returns after sending and never consumes a reply
CHECKS["C04"]["harnesses"] = CHECKS["C04"]["harnesses"] + [_h_modes[0], [h for h in CHECKS["C07"]["harnesses"] if h["name"] == "c07_send"][0]]
CHECKS["C04"]["assumptions"] = CHECKS["C04"]["assumptions"] + [
    "client clause (z3 on the rustc MIR, one thread): MethodCall::oneway is exactly one send with the oneway flag and nothing else, "
    "it never calls recv, and its outcome is the send's (c04_oneway); a send in oneway mode writes one flushed message carrying "
    "oneway and leaves both stream halves in the connection, so no reply is consumed and the next call reads from where the "
    "stream stood (c07_send). Confirmed natively on a real connection with two replies waiting: oneway(), then upgrade() and "
    "call() receive the first and second reply",
]
# C07: the public entry points around send / recv
CHECKS["C07"]["harnesses"] = CHECKS["C07"]["harnesses"] + _h_modes + _h_c05_client[:3]
CHECKS["C07"]["assumptions"] = CHECKS["C07"]["assumptions"] + [
    "entry points (c04_oneway, c07_upgrade, c05_call, c05_more, c05_next; send / recv as contract models there): oneway = one send "
    "flagged oneway and no read; call / upgrade = one send with the flags of the mode, then exactly one read whose result is "
    "returned, no read after a failed send; more = one send flagged more, the iterator armed; next = one read per item while "
    "the flag is set",
]
CHECKS["C05"]["assumptions"] = CHECKS["C05"]["assumptions"] + [
    "client half, by composition over single steps from an arbitrary state (one thread): next() yields exactly one reply read while "
    "the call's continues flag is set and reads nothing and ends once it is clear (c05_next); more() arms the flag, sends exactly one "
    "request carrying `more` only and fails iff the send fails (c05_more); call() sends without flags and returns the one reply it "
    "reads, reading only after a successful send (c05_call); recv() sets the flag exactly when the reply carries continues=true and "
    "otherwise hands both stream halves back to the connection, Ok exactly when the reply has no error (c07_recv). Together: every "
    "continues reply is yielded in order, then the final reply, then the iteration ends with the connection free. The order of "
    "items is the order of reads on one BufReader (not modelled further); a violation is confirmed natively on real "
    "Connection / MethodCall objects over scripted reply streams of 0..3 continues replies x {result, error, result with "
    "continues:false}, each followed by a call() on the same connection",
]

# C01 / C02 / C06 at message granularity on the MIR of handle(): the stream is a nondeterministic stub (symbolic framing)
C01_MIR_MODELS = [
    "MIR symbolic execution (smt/mirsym.py, smt/c01_mir.py); the stream and the callees are nondeterministic stubs:",
    "BufRead::read_until(0, buf) -> a complete NUL-terminated message, a partial message followed by end of stream, end of stream, or an "
    "I/O error (one successor path each; it appends to buf); slice::get / Vec::pop / deref on that buffer -> its last byte is NUL exactly "
    "for a complete message",
    "serde_json::from_slice::<Request> -> Ok(a request tied to the message it was read from) or Err (free); str::rfind('.') -> Some(pos) "
    "or None (free); str index / String::from -> the prefix value",
    "VarlinkService::call -> recorded (message, interface argument), may mark the call upgraded (free), Ok or Err (free); "
    "Call::reply_interface_not_found, VarlinkService::call_upgraded -> recorded, Ok or Err (free); BufReader::buffer -> a marker value",
    "Result::map_err / Try::branch / FromResidual -> the `?` contract; is_err / is_ok / is_some / is_none / Vec::clear -> definitions; "
    "string comparisons, HashMap::contains_key, serde_json::Error::is_* (only reached by modified code) -> free booleans",
]
_h_mir = [H("c01_handle_mir_3", engine="smt", script="c01_mir.py", timeout=(900, 1800),
            functions=["<varlink::VarlinkService as ConnectionHandler>::handle (rustc MIR)"],
            symbolic="the outcome of every read (message / partial / end / error), whether each message parses, whether its method has a "
                     "dot, what the dispatcher returns and whether it upgrades; entry with or without an earlier upgrade",
            bounds="runs of at most 3 reads (51 returning paths)", stubs=C01_MIR_MODELS),
          H("c01_handle_mir_5", engine="smt", script="c01_mir.py", tiers=("thorough",), timeout=(900, 3600),
            functions=["<varlink::VarlinkService as ConnectionHandler>::handle (rustc MIR)"],
            symbolic="as c01_handle_mir_3", bounds="runs of at most 5 reads", stubs=C01_MIR_MODELS)]
for _p in ("C01", "C02", "C06"):
    CHECKS[_p]["harnesses"] = CHECKS[_p]["harnesses"] + _h_mir
    CHECKS[_p]["assumptions"] = CHECKS[_p]["assumptions"] + [
        "c01_handle_mir_*: (z3, on the MIR of handle with the stream as a stub) symbolic framing at message granularity - every "
        "complete message is parsed without its terminator and served exactly once, in order, before the next read; nothing is read "
        "after a failing call, an unparsable message or an upgrade, and such a failure is returned; a partial message is returned as "
        "the tail unparsed, end of stream gives an empty tail, an upgrade returns the buffered remainder and the interface"]

