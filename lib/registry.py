"""Check registry: per claimed property, the Kani harnesses that decide it, their bounds,
stubs and the real functions they encode."""

STUB_SER = [
    "serde_json::to_string -> recording serializer (runs the real Serialize impls, returns a 3-byte tag)",
    "serde_json::to_value -> recording serializer (returns an opaque non-null Value)",
]
STUB_FMT = ["alloc::fmt::format -> String::new()"]

COMMON_ASSUMPTIONS = [
    "Kani 0.68 / CBMC 6.11 model the dev profile (debug assertions, overflow checks on) of the compiled MIR",
    "CBMC pointer-validity checks are switched off (--no-memory-safety-checks): the code under check is safe Rust; "
    "Rust-level panics (bounds, overflow, unwrap, explicit asserts) remain checked assertions",
    "unwinding assertions are on: a loop or recursion bound that is too small makes the run inconclusive, never a pass",
    "a counterexample is reported only after it reproduces natively (real serde_json, no stubs) on the same source copy",
]


def H(name, mod="verif_lib::c04", package="varlink", tiers=("quick", "thorough"), timeout=(900, 3600), **kw):
    d = {"name": name, "mod": mod, "package": package, "tiers": tiers, "timeout": timeout}
    d.update(kw)
    return d


CHECKS = {}

CHECKS["C04"] = {
    "design_ref": "3/C04",
    "harnesses": [
        H("c04_reply_paths", mod="verif_lib::c04",
          functions=["varlink::Call::reply_struct", "varlink::Call::reply_parameters",
                     "varlink::CallTrait::reply_method_not_found", "varlink::CallTrait::reply_method_not_implemented",
                     "varlink::CallTrait::reply_invalid_parameter", "varlink::Call::reply_interface_not_found",
                     "varlink::Call::is_oneway", "varlink::Call::wants_more"],
          symbolic="more/oneway/upgrade in {absent,false,true}, Call.continues, reply path selector (8 paths)",
          bounds="all 27 flag combinations x continues x 8 library reply paths; one reply per call; unwind 12",
          stubs=STUB_SER + STUB_FMT),
    ],
    "assumptions": [
        "writer is an in-memory recorder whose write_all/flush never fail",
    ],
}

STUB_POOL = [
    "varlink::server::Worker::new -> ghost counter, returns Worker{thread: None} (Kani has no threads)",
    "std::sync::mpsc::Sender::send -> ghost counter (send crashes kani-compiler 0.68: ICE intrinsics.rs:243)",
]

CHECKS["C14"] = {
    "design_ref": "3/C14",
    "harnesses": [
        H("c14_execute_step", mod="server::verif_server::c14", timeout=(600, 1800),
          functions=["varlink::server::ThreadPool::execute", "varlink::server::ThreadPool::num_busy"],
          symbolic="workers, max, unfinished connections (each <= 5) constrained by the representation invariant",
          bounds="one acceptor step from every pool state with counters <= 5 that satisfies the invariant; unwind 8",
          stubs=STUB_POOL),
        H("c14_new_establishes_invariant", mod="server::verif_server::c14", timeout=(600, 1800),
          functions=["varlink::server::ThreadPool::new"],
          symbolic="initial, max in 1..=5",
          bounds="initial, max <= 5; unwind 8", stubs=STUB_POOL[:1]),
        H("c14_worker_protocol", mod="server::verif_server::c14", timeout=(600, 1800),
          functions=["varlink::server::Worker::new (the worker closure, run inline)"],
          symbolic="busy counter before the job (1..=5)",
          bounds="one job followed by Terminate; unwind 4",
          stubs=["std::thread::spawn -> runs the closure inline (sequentialised)",
                 "std::sync::mpsc::Receiver::recv -> pops a scripted message queue [NewJob(job), Terminate]"]),
    ],
    "assumptions": [
        "thread schedules are abstracted: the acceptor step and the worker steps are each checked as atomic steps "
        "from an arbitrary state satisfying the invariant (workers <= max and workers >= min(unfinished, max)); "
        "any interleaving is a sequence of such steps because every access to the shared counter is inside the "
        "RwLock critical sections; liveness (an idle worker eventually dequeues) is assumed from the OS scheduler",
        "precondition: initial_worker_threads <= max_worker_threads",
    ],
}

STUB_HANDLE = STUB_SER + STUB_FMT + [
    "serde_json::from_slice -> scripted deserializer: the k-th message is answered by a pre-drawn script (syntax "
    "error, or an object with the drawn members) that drives the real derived Deserialize visitor of Request",
    "serde_json::from_value -> scripted deserializer driving the real Deserialize impl of the argument struct",
    "std::io::BufReader::new -> BufReader::with_capacity(4, _) (same code, 4-byte instead of 8 KiB buffer)",
    "core::slice::memchr::{memchr,memrchr} -> naive byte loops (std's word-at-a-time versions use pointer alignment tricks)",
    "alloc::string::String::from_utf8_lossy -> empty string (only used to fill the SerdeJsonDe error text)",
    "std::hash::RandomState::new -> fixed keys (empty HashMap only)",
    "<serde_json::Value as Clone>::clone -> shallow clone of scalar values (compound values are a reported failure)",
    "varlink::VarlinkService::call (private table lookup) -> dispatch model: built-in interface = real code, "
    "'a.b' = scripted method implementation, anything else = reply_interface_not_found; the real function is "
    "verified by the C03 harnesses",
]

# per-loop unwind bounds for the handle-level harnesses (default bound: the harness's
# #[kani::unwind]); the long ones are comparisons / searches over the 43-byte method names
# Recursive drop glue of serde_json::Value and the BTreeMap loops behind it are only reachable
# under infeasible guards (the harness values are scalars) but CBMC cannot see that once a
# discriminant is an if-then-else; they are cut at depth 1 / 2 iterations. Unwinding
# assertions stay on, so a feasible deeper path would be reported.
VALUE_CUTS = [("rec:drop_glue::<serde_json::Value>$", 1),
              ("rec:drop_glue::<.*BTreeMap<.*serde_json::Value", 1),
              ("rec:drop_glue::<.*Vec<serde_json::Value", 1),
              ("rec:drop_glue::<.*btree.*serde_json::Value", 1),
              (r"collections::btree::", 2)]
HANDLE_LOOPS = [("=memcmp.0", 46), (r"memchr::memrchr", 46), (r"tagser::key_eq", 21), (r"tagser::pack", 10),
                (r"nde::string_of", 10)] + VALUE_CUTS

HANDLE_FUNCS = ["<varlink::VarlinkService as varlink::ConnectionHandler>::handle", "varlink::Call::new",
                "<varlink::VarlinkService as varlink::Interface>::call", "varlink::Call::reply_struct",
                "varlink::Call::reply_parameters", "varlink::Call::reply_interface_not_found",
                "varlink::CallTrait::reply_method_not_found", "varlink::CallTrait::reply_invalid_parameter",
                "derive(Deserialize) for varlink::Request", "std::io::BufReader (real, small capacity)"]


def handle_h(name, k, tiers, timeout):
    return H(name, mod="verif_lib::c01", tiers=tiers, timeout=timeout, functions=HANDLE_FUNCS,
             symbolic="per message: parse ok/error, more/oneway/upgrade in {absent,false,true}, target in 7 kinds, "
                      "parameters kind, method-implementation script of <= 2 ops out of 6",
             bounds="%d pipelined message(s), concrete framing, 4-byte BufReader (refilled mid-stream); parameters "
                    "null/non-null per message fixed by the _p<mask> suffix, position of the unparsable message by "
                    "_f<i> (f9 = none); unwind 8 (46 for string compares)" % k,
             stubs=STUB_HANDLE, loop_rules=HANDLE_LOOPS)


CHECKS["C01"] = {
    "design_ref": "3/C01",
    "harnesses": [
        handle_h("c01_stream_k1_p0_f9", 1, ("quick", "thorough"), (1500, 3600)),
        handle_h("c01_stream_k1_p1_f9", 1, ("quick", "thorough"), (1500, 3600)),
        handle_h("c01_stream_k1_p0_f0", 1, ("quick", "thorough"), (1500, 3600)),
        handle_h("c01_stream_k2_p0_f9", 2, ("quick", "thorough"), (2400, 7200)),
        handle_h("c01_stream_k2_p1_f9", 2, ("thorough",), (2400, 7200)),
        handle_h("c01_stream_k2_p2_f9", 2, ("thorough",), (2400, 7200)),
        handle_h("c01_stream_k2_p3_f9", 2, ("quick", "thorough"), (2400, 7200)),
        handle_h("c01_stream_k2_p0_f1", 2, ("quick", "thorough"), (2400, 7200)),
        handle_h("c01_stream_k2_p1_f1", 2, ("thorough",), (2400, 7200)),
        handle_h("c01_stream_k3_p0_f9", 3, ("thorough",), (3600, 14400)),
        handle_h("c01_stream_k3_p2_f9", 3, ("thorough",), (3600, 14400)),
        handle_h("c01_stream_k3_p5_f9", 3, ("thorough",), (3600, 14400)),
        handle_h("c01_stream_k3_p7_f9", 3, ("thorough",), (3600, 14400)),
        handle_h("c01_stream_k3_p3_f2", 3, ("thorough",), (3600, 14400)),
    ],
    "assumptions": [
        "framing is concrete (message boundaries at fixed offsets): symbolic message lengths through BufReader/Vec are "
        "beyond CBMC (probe: 4 symbolic bytes, no verdict in 18 min / 18 GB); message CONTENT is symbolic through the "
        "scripted parser",
        "for Option members of Request an absent member and a null member are the same (serde_derive semantics)",
        "more than 3 messages per handle() call: the loop carries no state between iterations other than the reader",
        "in-memory reader/writer never fail",
    ],
}
