"""Run one Kani harness on an overlay and classify the result.

Verdict classes (DESIGN 1.4):
  pass          VERIFICATION SUCCESSFUL, no failed check, every cover SATISFIED
  violation     only harness-oracle assertions ("P:<label>") or real-code panics failed;
                candidate until the native replayer reproduces it
  inconclusive  everything else: timeout, out of memory, CBMC/Kani error, ICE, unwinding
                assertion failed, unsupported construct reached, cover not satisfied
"""
import os
import re
import resource
import signal
import subprocess
import time

KANI_ENV = {
    "CARGO_NET_OFFLINE": "true",
}

CHECK_RE = re.compile(
    r"^Check (\d+): (\S+)\n\s+- Status: (\w+)\n\s+- Description: \"(.*)\"\n\s+- Location: (.*)$",
    re.M,
)


def _limits(mem_gb):
    def f():
        os.setsid()
        if mem_gb:
            b = int(mem_gb * (1 << 30))
            resource.setrlimit(resource.RLIMIT_AS, (b, b))
    return f


def parse_playback(text):
    """Extract the concrete values of Kani's generated playback test(s), in draw order."""
    out = []
    for m in re.finditer(r"let concrete_vals: Vec<Vec<u8>> = vec!\[(.*?)\];", text, re.S):
        vals = []
        for vm in re.finditer(r"vec!\[([0-9,\s]*)\]", m.group(1)):
            s = vm.group(1).strip()
            vals.append([int(x) for x in s.split(",") if x.strip()] if s else [])
        out.append(vals)
    return out


def classify(text, rc, timed_out):
    res = {
        "verdict": "inconclusive",
        "reason": "",
        "checks_total": 0,
        "checks_failed": [],
        "oracle_ok": [],
        "covers": [],
        "covers_unsat": [],
        "verification_time_s": None,
        "playback": [],
    }
    checks = CHECK_RE.findall(text)
    res["checks_total"] = len(checks)
    unwind_fail = []
    unsupported = []
    oracle_fail = []
    other_fail = []
    for num, name, status, desc, loc in checks:
        desc = desc.strip('"')
        is_cover = ".cover." in name
        if is_cover:
            res["covers"].append({"desc": desc, "status": status})
            if status != "SATISFIED":
                res["covers_unsat"].append(desc)
            continue
        if desc.startswith("P:") and status == "SUCCESS":
            res["oracle_ok"].append(desc)
        if status in ("SUCCESS", "UNREACHABLE"):
            continue
        ent = {"name": name, "status": status, "desc": desc, "loc": loc}
        if status != "FAILURE":
            # UNDETERMINED etc.
            unsupported.append(ent)
        elif ".unwind." in name or "unwinding assertion" in desc or ".recursion" in name:
            unwind_fail.append(ent)
        elif "not currently supported by Kani" in desc or "unsupported" in name or "is not supported" in desc:
            unsupported.append(ent)
        elif desc.startswith("P:"):
            oracle_fail.append(ent)
        else:
            other_fail.append(ent)
    res["checks_failed"] = oracle_fail + other_fail + unwind_fail + unsupported
    m = re.search(r"Verification Time: ([0-9.]+)s", text)
    if m:
        res["verification_time_s"] = float(m.group(1))
    res["playback"] = parse_playback(text)

    if timed_out:
        res["reason"] = "timeout"
        return res
    if "VERIFICATION:- SUCCESSFUL" in text and "VERIFICATION:- FAILED" not in text:
        if res["covers_unsat"]:
            res["reason"] = "vacuous: cover not satisfied: %s" % res["covers_unsat"]
            return res
        if res["checks_failed"]:
            res["reason"] = "inconsistent output"
            return res
        res["verdict"] = "pass"
        return res
    if "VERIFICATION:- FAILED" in text:
        if unwind_fail:
            res["reason"] = "unwinding assertion failed (bound too small): %s" % unwind_fail[0]["loc"]
            return res
        if unsupported:
            res["reason"] = "unsupported construct reached: %s" % unsupported[0]["desc"]
            return res
        if oracle_fail or other_fail:
            res["verdict"] = "violation"
            res["failed_labels"] = [e["desc"] for e in oracle_fail] + ["panic:" + e["desc"] for e in other_fail]
            return res
        res["reason"] = "FAILED without a failed check (CBMC error / out of memory?)"
        return res
    if "internal compiler error" in text or "thread 'rustc' panicked" in text:
        res["reason"] = "kani-compiler ICE"
    elif "error[" in text or "error:" in text:
        m = re.search(r"^(error.*)$", text, re.M)
        res["reason"] = "build error: %s" % (m.group(1) if m else "?")
    else:
        res["reason"] = "no verdict (rc=%s)" % rc
    return res


def run_harness(overlay, package, harness, target_dir, log_path, timeout_s=900, mem_gb=14,
                extra_args=None, cbmc_args=None, playback=False):
    cmd = ["cargo", "kani", "-p", package, "-Z", "stubbing", "--harness", harness, "--exact",
           "--target-dir", target_dir]
    if playback:
        cmd += ["-Z", "concrete-playback", "--concrete-playback=print"]
    if extra_args:
        cmd += list(extra_args)
    if cbmc_args:
        cmd += ["-Z", "unstable-options", "--cbmc-args"] + list(cbmc_args)
    env = dict(os.environ)
    env.update(KANI_ENV)
    t0 = time.time()
    timed_out = False
    with open(log_path, "w") as log:
        log.write("$ " + " ".join(cmd) + "\n")
        log.flush()
        p = subprocess.Popen(cmd, cwd=overlay, stdout=log, stderr=subprocess.STDOUT, env=env,
                             preexec_fn=_limits(mem_gb))
        try:
            rc = p.wait(timeout=timeout_s)
        except subprocess.TimeoutExpired:
            timed_out = True
            try:
                os.killpg(p.pid, signal.SIGKILL)
            except ProcessLookupError:
                pass
            rc = p.wait()
    wall = time.time() - t0
    with open(log_path, errors="replace") as fh:
        text = fh.read()
    res = classify(text, rc, timed_out)
    res.update({"harness": harness.split("::")[-1], "wall_s": round(wall, 1), "log": log_path, "cmd": " ".join(cmd)})
    return res
