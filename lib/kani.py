"""Run one Kani harness on an overlay and classify the result.

Verdict classes (DESIGN 1.4):
  pass          VERIFICATION SUCCESSFUL, no failed check, every cover SATISFIED
  violation     only harness-oracle assertions ("P:<label>") or real-code panics failed;
                candidate until the native replayer reproduces it
  inconclusive  everything else: timeout, out of memory, CBMC/Kani error, ICE, unwinding
                assertion failed, unsupported construct reached, cover not satisfied
"""
import os
import re
import resource
import signal
import subprocess
import time

KANI_ENV = {
    "CARGO_NET_OFFLINE": "true",
}

CHECK_RE = re.compile(
    r"^Check (\d+): (\S+)\n\s+- Status: (\w+)\n\s+- Description: \"(.*)\"\n\s+- Location: (.*)$",
    re.M,
)


def _limits(mem_gb):
    def f():
        os.setsid()
        if mem_gb:
            b = int(mem_gb * (1 << 30))
            resource.setrlimit(resource.RLIMIT_AS, (b, b))
    return f


def parse_playback(text):
    """Extract the concrete values of Kani's generated playback test(s), in draw order."""
    out = []
    for m in re.finditer(r"let concrete_vals: Vec<Vec<u8>> = vec!\[(.*?)\];", text, re.S):
        vals = []
        for vm in re.finditer(r"vec!\[([0-9,\s]*)\]", m.group(1)):
            s = vm.group(1).strip()
            vals.append([int(x) for x in s.split(",") if x.strip()] if s else [])
        out.append(vals)
    return out


def classify(text, rc, timed_out):
    res = {
        "verdict": "inconclusive",
        "reason": "",
        "checks_total": 0,
        "checks_failed": [],
        "oracle_ok": [],
        "covers": [],
        "covers_unsat": [],
        "verification_time_s": None,
        "playback": [],
    }
    checks = CHECK_RE.findall(text)
    res["checks_total"] = len(checks)
    unwind_fail = []
    unsupported = []
    oracle_fail = []
    other_fail = []
    for num, name, status, desc, loc in checks:
        desc = desc.strip('"')
        is_cover = ".cover." in name
        if is_cover:
            res["covers"].append({"desc": desc, "status": status})
            if status != "SATISFIED":
                res["covers_unsat"].append(desc)
            continue
        if desc.startswith("P:") and status == "SUCCESS":
            res["oracle_ok"].append(desc)
        if status in ("SUCCESS", "UNREACHABLE"):
            continue
        ent = {"name": name, "status": status, "desc": desc, "loc": loc}
        if status != "FAILURE":
            # UNDETERMINED etc.
            unsupported.append(ent)
        elif ".unwind." in name or "unwinding assertion" in desc or ".recursion" in name:
            unwind_fail.append(ent)
        elif "not currently supported by Kani" in desc or "unsupported" in name or "is not supported" in desc:
            unsupported.append(ent)
        elif desc.startswith("P:"):
            oracle_fail.append(ent)
        else:
            other_fail.append(ent)
    res["checks_failed"] = oracle_fail + other_fail + unwind_fail + unsupported
    m = re.search(r"Verification Time: ([0-9.]+)s", text)
    if m:
        res["verification_time_s"] = float(m.group(1))
    res["playback"] = parse_playback(text)

    if timed_out:
        res["reason"] = "timeout"
        return res
    if "VERIFICATION:- SUCCESSFUL" in text and "VERIFICATION:- FAILED" not in text:
        if res["covers_unsat"]:
            res["reason"] = "vacuous: cover not satisfied: %s" % res["covers_unsat"]
            return res
        if res["checks_failed"]:
            res["reason"] = "inconsistent output"
            return res
        res["verdict"] = "pass"
        return res
    if "VERIFICATION:- FAILED" in text:
        if unwind_fail:
            res["reason"] = "unwinding assertion failed (bound too small): %s" % unwind_fail[0]["loc"]
            return res
        if unsupported:
            res["reason"] = "unsupported construct reached: %s" % unsupported[0]["desc"]
            return res
        if oracle_fail or other_fail:
            res["verdict"] = "violation"
            res["failed_labels"] = [e["desc"] for e in oracle_fail] + ["panic:" + e["desc"] for e in other_fail]
            return res
        res["reason"] = "FAILED without a failed check (CBMC error / out of memory?)"
        return res
    if "internal compiler error" in text or "thread 'rustc' panicked" in text:
        res["reason"] = "kani-compiler ICE"
    elif "error[" in text or "error:" in text:
        m = re.search(r"^(error.*)$", text, re.M)
        res["reason"] = "build error: %s" % (m.group(1) if m else "?")
    else:
        res["reason"] = "no verdict (rc=%s)" % rc
    return res


LOOP_RE = re.compile(r"^Loop (\S+):\n\s+file (.*?) function (.*)$", re.M)


def loop_unwindset(overlay, package, harness, target_dir, log_path, extra_args, rules):
    """Per-loop unwind bounds: compile only, list the loops of the harness's goto binary with
    goto-instrument, and give every loop whose id / function name matches a rule its own bound.
    Unwinding assertions stay on, so a bound that is too small is reported, never silent."""
    import glob
    cmd = ["cargo", "kani", "-p", package, "-Z", "stubbing", "--harness", harness, "--exact",
           "--target-dir", target_dir, "--only-codegen"] + list(extra_args or [])
    env = dict(os.environ)
    env.update(KANI_ENV)
    with open(log_path, "w") as log:
        log.write("$ " + " ".join(cmd) + "\n")
        log.flush()
        p = subprocess.run(cmd, cwd=overlay, stdout=log, stderr=subprocess.STDOUT, env=env)
    if p.returncode != 0:
        return None
    short = harness.split("::")[-1]
    outs = [f for f in glob.glob(os.path.join(target_dir, "kani", "*", "debug", "build", "*", "*", "out", "*.out"))
            if not f.endswith(".symtab.out") and re.search(r"\d+%s\.out$" % re.escape(short), f)]
    if not outs:
        outs = [f for f in glob.glob(os.path.join(target_dir, "kani", "**", "*.out"), recursive=True)
                if not f.endswith(".symtab.out") and f.endswith(short + ".out")]
    if not outs:
        return None
    outs.sort(key=os.path.getmtime)
    q = subprocess.run(["goto-instrument", "--show-loops", outs[-1]], stdout=subprocess.PIPE,
                       stderr=subprocess.DEVNULL, text=True)
    pairs = []
    rec_rules = [(rx[4:], b) for rx, b in rules if rx.startswith("rec:")]
    if rec_rules:
        # recursion bounds: CBMC identifies a recursion by the (mangled) function symbol
        import json
        pm = outs[-1][:-len(".out")] + ".pretty_name_map.json"
        try:
            names = json.load(open(pm))
        except (OSError, ValueError):
            names = {}
        for mangled, pretty in names.items():
            if not mangled.startswith("_R"):
                continue  # type tags etc.; recursion bounds apply to function symbols
            for rx, bound in rec_rules:
                if pretty and re.search(rx, str(pretty)):
                    pairs.append("%s:%d" % (mangled, bound))
                    break
    rules = [(rx, b) for rx, b in rules if not rx.startswith("rec:")]
    for rx, bound in rules:
        if rx.startswith("="):
            # a loop of CBMC's built-in library (linked in after codegen): literal id
            pairs.append("%s:%d" % (rx[1:], bound))
    for lid, _file, fn in LOOP_RE.findall(q.stdout):
        for rx, bound in rules:
            if rx.startswith("="):
                continue
            if re.search(rx, lid) or re.search(rx, fn):
                pairs.append("%s:%d" % (lid, bound))
                break
    return pairs


def run_harness(overlay, package, harness, target_dir, log_path, timeout_s=900, mem_gb=14,
                extra_args=None, cbmc_args=None, playback=False, loop_rules=None):
    cmd = ["cargo", "kani", "-p", package, "-Z", "stubbing", "--harness", harness, "--exact",
           "--target-dir", target_dir]
    if playback:
        cmd += ["-Z", "concrete-playback", "--concrete-playback=print"]
    if extra_args:
        cmd += list(extra_args)
    cbmc_args = list(cbmc_args or [])
    if loop_rules:
        pairs = loop_unwindset(overlay, package, harness, target_dir, log_path + ".codegen", extra_args, loop_rules)
        if pairs is None:
            with open(log_path + ".codegen", errors="replace") as fh:
                text = fh.read()
            res = classify(text, 1, False)
            res.update({"harness": harness.split("::")[-1], "wall_s": 0.0, "log": log_path + ".codegen",
                        "cmd": "codegen"})
            if res["verdict"] != "inconclusive" or not res["reason"]:
                res["verdict"] = "inconclusive"
                res["reason"] = "codegen / loop listing failed"
            return res
        if pairs:
            cbmc_args += ["--unwindset", ",".join(pairs)]
    if cbmc_args:
        if "unstable-options" not in cmd:
            cmd += ["-Z", "unstable-options"]
        cmd += ["--cbmc-args"] + cbmc_args
    env = dict(os.environ)
    env.update(KANI_ENV)
    t0 = time.time()
    timed_out = False
    with open(log_path, "w") as log:
        log.write("$ " + " ".join(cmd) + "\n")
        log.flush()
        p = subprocess.Popen(cmd, cwd=overlay, stdout=log, stderr=subprocess.STDOUT, env=env,
                             preexec_fn=_limits(mem_gb))
        try:
            rc = p.wait(timeout=timeout_s)
        except subprocess.TimeoutExpired:
            timed_out = True
            try:
                os.killpg(p.pid, signal.SIGKILL)
            except ProcessLookupError:
                pass
            rc = p.wait()
    wall = time.time() - t0
    with open(log_path, errors="replace") as fh:
        text = fh.read()
    res = classify(text, rc, timed_out)
    res.update({"harness": harness.split("::")[-1], "wall_s": round(wall, 1), "log": log_path, "cmd": " ".join(cmd)})
    return res
