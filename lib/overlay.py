"""Overlay builder: a byte-for-byte copy of /repo's working tree (sources only) with one
`#[cfg(kani)] mod` line appended to the files that host harness modules.

The copy is taken on every run, so what is verified is /repo as it is *now* (including
any edit made just before the check is called)."""
import os
import shutil
import subprocess
import hashlib

REPO = os.environ.get("VERIF_REPO", "/repo")
VERIF = os.path.dirname(os.path.dirname(os.path.abspath(__file__)))
# VERIF_HARNESS: alternative harness tree (used for reach probes without disturbing running checks)
HARNESS = os.environ.get("VERIF_HARNESS", os.path.join(VERIF, "harness"))

# file in the workspace  ->  (module name, harness root file)
MOUNTS = {
    "varlink/src/lib.rs": ("verif_lib", "varlink_lib.rs"),
    "varlink/src/server.rs": ("verif_server", "varlink_server.rs"),
    "varlink/src/client.rs": ("verif_client", "varlink_client.rs"),
    "varlink_parser/src/lib.rs": ("verif_parser", "parser_lib.rs"),
    "varlink-certification/src/main.rs": ("verif_cert", "cert_main.rs"),
}


CRATE_ROOTS = ("varlink/src/lib.rs", "varlink_parser/src/lib.rs", "varlink-certification/src/main.rs")


def scratch_root():
    d = os.environ.get("VERIF_SCRATCH", "/var/tmp/varlink-verif")
    os.makedirs(d, exist_ok=True)
    return d


def tree_digest(root):
    h = hashlib.sha256()
    for dp, dn, fn in os.walk(root):
        dn[:] = sorted(d for d in dn if d not in ("target", ".git"))
        for f in sorted(fn):
            p = os.path.join(dp, f)
            if not (f.endswith(".rs") or f.endswith(".toml") or f.endswith(".varlink") or f == "Cargo.lock"):
                continue
            h.update(os.path.relpath(p, root).encode())
            with open(p, "rb") as fh:
                h.update(fh.read())
    return h.hexdigest()[:16]


def make_overlay(dest, mounts=None):
    """Copy REPO (without target/.git) to dest and append the harness mounts."""
    if os.path.exists(dest):
        shutil.rmtree(dest)
    os.makedirs(dest)
    subprocess.run(
        ["rsync", "-a", "--exclude", "/target", "--exclude", ".git", REPO + "/", dest + "/"],
        check=True,
    )
    appended = []
    for rel, (mod, root) in MOUNTS.items():
        if mounts is not None and rel not in mounts:
            continue
        hp = os.path.join(HARNESS, root)
        fp = os.path.join(dest, rel)
        if not (os.path.exists(hp) and os.path.exists(fp)):
            continue
        with open(fp, "a") as fh:
            fh.write('\n#[cfg(kani)]\n#[path = "%s"]\nmod %s;\n' % (hp, mod))
        if rel in CRATE_ROOTS:
            # crate roots additionally get one inner attribute on a new first line (harness stubs
            # name std's allocator-parameterised HashMap); dead unless cfg(kani)
            with open(fp) as fh:
                body = fh.read()
            with open(fp, "w") as fh:
                fh.write("#![cfg_attr(kani, feature(allocator_api))]\n" + body)
        appended.append(rel)
    # tell rustc that cfg(kani) is expected (quietens check-cfg in native builds of the copy)
    return {"dest": dest, "appended": appended, "source_digest": tree_digest(REPO)}
