"""Check driver: overlay -> Kani harnesses -> classification -> native replay -> known
findings -> evidence. See DESIGN 1.4."""
import concurrent.futures
import fcntl
import json
import os
import re
import shutil
import subprocess
import sys
import time

HERE = os.path.dirname(os.path.abspath(__file__))
VERIF = os.path.dirname(HERE)
sys.path.insert(0, HERE)

import kani  # noqa: E402
import overlay  # noqa: E402
import registry  # noqa: E402

KNOWN = os.path.join(VERIF, "known_findings.txt")
EVID = os.path.join(VERIF, "evidence")


def log(msg):
    print(msg, flush=True)


def load_known():
    findings, fixed = [], []
    if not os.path.exists(KNOWN):
        return findings, fixed
    for line in open(KNOWN):
        line = line.strip()
        if not line or line.startswith("#"):
            continue
        m = re.match(r"finding: property=(\S+) key=(\S+) (.*)$", line)
        if m:
            findings.append({"property": m.group(1), "key": m.group(2), "what": m.group(3)})
            continue
        m = re.match(r"fixed: property=(\S+) (\S+) (.*)$", line)
        if m:
            fixed.append({"property": m.group(1), "commit": m.group(2), "what": m.group(3)})
    return findings, fixed


class Lock:
    def __init__(self, path):
        self.path = path

    def __enter__(self):
        os.makedirs(os.path.dirname(self.path), exist_ok=True)
        self.fh = open(self.path, "w")
        fcntl.flock(self.fh, fcntl.LOCK_EX)
        return self

    def __exit__(self, *a):
        fcntl.flock(self.fh, fcntl.LOCK_UN)
        self.fh.close()


def build_replayer(ov, workdir):
    """Native replayer: an ordinary cargo build (no Kani, no stubs) against the same source
    copy the harnesses were verified on."""
    rdir = os.path.join(workdir, "replay")
    if os.path.exists(rdir):
        shutil.rmtree(rdir)
    os.makedirs(os.path.join(rdir, "src"))
    for f in os.listdir(os.path.join(VERIF, "replay", "src")):
        shutil.copy(os.path.join(VERIF, "replay", "src", f), os.path.join(rdir, "src", f))
    shutil.copytree(os.path.join(VERIF, "harness", "shared"), os.path.join(rdir, "src", "shared"))
    with open(os.path.join(VERIF, "replay", "Cargo.toml.in")) as fh:
        toml = fh.read().replace("@OVERLAY@", ov).replace("@VERIF@", VERIF)
    with open(os.path.join(rdir, "Cargo.toml"), "w") as fh:
        fh.write(toml)
    shutil.copy(os.path.join(ov, "Cargo.lock"), os.path.join(rdir, "Cargo.lock"))
    env = dict(os.environ)
    env["CARGO_NET_OFFLINE"] = "true"
    env["VERIF_HARNESS_DIR"] = os.path.join(VERIF, "harness")
    tgt = os.path.join(overlay.scratch_root(), "replay-tgt")
    with Lock(os.path.join(overlay.scratch_root(), "replay-tgt.lock")):
        p = subprocess.run(["cargo", "build", "--offline", "--quiet", "--target-dir", tgt],
                           cwd=rdir, env=env, stdout=subprocess.PIPE, stderr=subprocess.STDOUT, text=True)
        if p.returncode != 0:
            return None, p.stdout
        # copy the binary so that a concurrent check cannot replace it under us
        dst = os.path.join(workdir, "vreplay")
        shutil.copy(os.path.join(tgt, "debug", "vreplay"), dst)
    return dst, ""


def run_search(binpath, harness, timeout=900):
    try:
        p = subprocess.run([binpath, harness, "search"], stdout=subprocess.PIPE, stderr=subprocess.PIPE, text=True,
                           timeout=timeout)
    except subprocess.TimeoutExpired:
        return {"reproduced": False, "detail": "native witness search timed out"}
    for line in p.stdout.splitlines():
        if line.startswith("{"):
            try:
                return json.loads(line)
            except ValueError:
                pass
    return {"reproduced": False, "detail": "witness search gave no result: %s" % p.stderr[-300:]}


CERT_BIN = [None]


def build_cert(ov):
    """the real varlink-certification server, built from the same source copy (C19 native replay)"""
    if CERT_BIN[0]:
        return CERT_BIN[0]
    tgt = os.path.join(overlay.scratch_root(), "cert-tgt")
    env = dict(os.environ)
    env["CARGO_NET_OFFLINE"] = "true"
    with Lock(os.path.join(overlay.scratch_root(), "cert-tgt.lock")):
        p = subprocess.run(["cargo", "build", "--offline", "--quiet", "-p", "varlink-certification", "--target-dir", tgt],
                           cwd=ov, env=env, stdout=subprocess.PIPE, stderr=subprocess.STDOUT, text=True)
        if p.returncode != 0:
            log("certification server build failed:\n" + p.stdout[-1500:])
            return None
        dst = os.path.join(os.path.dirname(ov), "varlink-certification")
        shutil.copy(os.path.join(tgt, "debug", "varlink-certification"), dst)
    CERT_BIN[0] = dst
    return dst


def run_replayer(binpath, harness, vals, timeout=120, ov=None):
    if harness.startswith("c19_") and ov:
        b = build_cert(ov)
        if b:
            os.environ["VERIF_CERT_BIN"] = b
    flat = []
    for v in vals:
        flat.extend(v)
    arg = ",".join(str(x) for x in flat) or "-"
    try:
        p = subprocess.run([binpath, harness, arg], stdout=subprocess.PIPE, stderr=subprocess.PIPE, text=True,
                           timeout=timeout)
    except subprocess.TimeoutExpired:
        return {"reproduced": False, "detail": "replayer timed out", "role": "", "labels": []}
    for line in p.stdout.splitlines():
        if line.startswith("{"):
            try:
                return json.loads(line)
            except ValueError:
                pass
    return {"reproduced": False, "labels": [], "role": "",
            "detail": "replayer gave no result (rc=%s): %s %s" % (p.returncode, p.stdout[-300:], p.stderr[-300:])}


def main(argv):
    import argparse
    ap = argparse.ArgumentParser()
    ap.add_argument("prop")
    ap.add_argument("--tier", default=os.environ.get("VERIF_TIER", "quick"), choices=["quick", "thorough"])
    ap.add_argument("--replay", default=None, help="re-run the native replayer on a replay file")
    ap.add_argument("--only", default=None, help="run only the harnesses whose name contains this")
    ap.add_argument("--jobs", type=int, default=int(os.environ.get("VERIF_JOBS", "8")))
    ap.add_argument("--keep", action="store_true", help="keep the work directory")
    args = ap.parse_args(argv)
    pid = args.prop
    if pid not in registry.CHECKS:
        log("unknown or unclaimed property %s" % pid)
        return 2
    seed = int(os.environ.get("VERIF_SEED", "0") or 0)
    spec = registry.CHECKS[pid]
    t0 = time.time()
    scratch = overlay.scratch_root()
    workdir = os.path.join(scratch, "%s-%s" % (pid, args.tier))
    os.makedirs(workdir, exist_ok=True)
    os.makedirs(EVID, exist_ok=True)
    os.makedirs(os.path.join(EVID, "replays"), exist_ok=True)

    with Lock(workdir + ".lock"):
        ov = os.path.join(workdir, "ov")
        info = overlay.make_overlay(ov)
        if args.replay:
            return do_replay_file(args.replay, ov, workdir)
        harnesses = [h for h in spec["harnesses"] if args.tier in h["tiers"]]
        if args.only:
            harnesses = [h for h in harnesses if args.only in h["name"]]
        if not harnesses:
            log("no harness selected")
            return 2
        logdir = os.path.join(workdir, "logs")
        os.makedirs(logdir, exist_ok=True)

        smt_replayer = [None]
        if any(h.get("engine") == "smt" and h.get("needs_replayer") for h in harnesses):
            smt_replayer[0], err = build_replayer(ov, workdir)
            if smt_replayer[0] is None:
                log("replayer build failed:\n" + err[-2000:])

        def run_smt(h):
            """solver check written against the source text (smt/<script>): same result shape as a Kani run"""
            tmo = h["timeout"][0 if args.tier == "quick" else 1]
            out = os.path.join(logdir, h["name"] + ".json")
            logp = os.path.join(logdir, h["name"] + ".log")
            cmd = ["python3-vt", os.path.join(VERIF, "smt", h["script"]), "--repo", ov, "--instance", h["name"],
                   "--out", out, "--timeout", str(tmo)]
            if smt_replayer[0]:
                cmd += ["--replayer", smt_replayer[0]]
            t1 = time.time()
            if os.path.exists(out):
                os.unlink(out)
            with open(logp, "w") as lf:
                lf.write("$ " + " ".join(cmd) + "\n")
                lf.flush()
                try:
                    subprocess.run(cmd, stdout=lf, stderr=subprocess.STDOUT, timeout=tmo + 120)
                except subprocess.TimeoutExpired:
                    pass
            r = {"verdict": "inconclusive", "reason": "no result from %s" % h["script"], "checks_total": 0,
                 "checks_failed": [], "oracle_ok": [], "covers": [], "covers_unsat": [], "verification_time_s": None,
                 "playback": []}
            try:
                with open(out) as fh:
                    r.update(json.load(fh))
            except (OSError, ValueError):
                pass
            r.update({"harness": h["name"], "wall_s": round(time.time() - t1, 1), "log": logp, "cmd": " ".join(cmd)})
            return r

        def run(h):
            if h.get("engine") == "smt":
                return run_smt(h)
            tgt = os.path.join(scratch, "kani-tgt", h["name"])
            with Lock(tgt + ".lock"):
                extra = list(h.get("kani_args", []))
                if h.get("no_mem_checks", True):
                    extra += ["-Z", "unstable-options", "--no-memory-safety-checks"]
                tmo = h["timeout"][0 if args.tier == "quick" else 1]
                r = kani.run_harness(ov, h["package"], h["mod"] + "::" + h["name"], tgt,
                                     os.path.join(logdir, h["name"] + ".log"),
                                     timeout_s=tmo, mem_gb=h.get("mem_gb", 14),
                                     extra_args=extra, cbmc_args=h.get("cbmc_args"),
                                     loop_rules=h.get("loop_rules"))
            return r

        results = []
        with concurrent.futures.ThreadPoolExecutor(max_workers=max(1, min(args.jobs, len(harnesses)))) as ex:
            futs = {ex.submit(run, h): h for h in harnesses}
            for f in concurrent.futures.as_completed(futs):
                h = futs[f]
                r = f.result()
                r["spec"] = h
                results.append(r)
                log("[%s] %-34s %-12s %6.1fs  checks=%d %s" % (
                    pid, h["name"], r["verdict"], r["wall_s"], r["checks_total"], r.get("reason", "")))
        results.sort(key=lambda r: r["harness"])
        # second run of each failing harness, one at a time (the trace output is large): ask CBMC
        # for the concrete assignment
        replayer = smt_replayer[0]
        for r in results:
            if r["verdict"] != "violation":
                continue
            h = r["spec"]
            if h.get("engine") == "smt":
                continue  # the solver's model is the witness
            if h.get("witness") == "search":
                # small scenario space: find the natively reproducing assignment by exhaustive native
                # search instead of CBMC trace generation (15-20 min on these formulas)
                if replayer is None:
                    replayer, err = build_replayer(ov, workdir)
                    if replayer is None:
                        log("replayer build failed:\n" + err[-2000:])
                        continue
                rep = run_search(replayer, r["harness"])
                if rep.get("reproduced"):
                    r["playback"] = [[[v] for v in rep.get("vals", [])]]
                log("[%s] %-34s witness search: %s" % (pid, h["name"], "found" if rep.get("reproduced") else rep.get("detail")))
                continue
            tgt = os.path.join(scratch, "kani-tgt", h["name"])
            extra = list(h.get("kani_args", []))
            if h.get("no_mem_checks", True):
                extra += ["-Z", "unstable-options", "--no-memory-safety-checks"]
            tmo = h["timeout"][0 if args.tier == "quick" else 1]
            with Lock(tgt + ".lock"):
                r2 = kani.run_harness(ov, h["package"], h["mod"] + "::" + h["name"], tgt,
                                      os.path.join(logdir, h["name"] + ".playback.log"),
                                      timeout_s=tmo * 3, mem_gb=44,
                                      extra_args=extra, cbmc_args=h.get("cbmc_args"), playback=True,
                                      loop_rules=h.get("loop_rules"))
            r["playback"] = r2["playback"]
            r["wall_s"] += r2["wall_s"]
            log("[%s] %-34s playback      %6.1fs  %d candidate assignment(s)" % (
                pid, h["name"], r2["wall_s"], len(r2["playback"])))

        findings, fixed = load_known()
        violations, known_hits, inconclusive = [], [], []
        for r in results:
            if r["verdict"] == "inconclusive":
                inconclusive.append(r)
            elif r["verdict"] == "violation":
                if replayer is None:
                    replayer, err = build_replayer(ov, workdir)
                    if replayer is None:
                        log("replayer build failed:\n" + err[-2000:])
                if not r["playback"] or replayer is None:
                    r["verdict"] = "inconclusive"
                    r["reason"] = "counterexample could not be extracted/replayed"
                    inconclusive.append(r)
                    continue
                rep = None
                for vals in r["playback"]:
                    rep = run_replayer(replayer, r["harness"], vals, ov=ov)
                    rep["vals"] = vals
                    if rep.get("reproduced"):
                        break
                r["replay"] = rep
                if not rep.get("reproduced"):
                    r["verdict"] = "inconclusive"
                    r["reason"] = ("counterexample for %s did not reproduce natively (stub/model "
                                   "imprecision): %s" % (r.get("failed_labels"), rep.get("detail")))
                    inconclusive.append(r)
                    continue
                key = "%s:%s" % (r["harness"], rep.get("role") or "any")
                rpath = os.path.join(EVID, "replays", "%s-%s.json" % (pid, r["harness"]))
                with open(rpath, "w") as fh:
                    json.dump({"property": pid, "harness": r["harness"], "vals": rep["vals"],
                               "labels": r.get("failed_labels"), "key": key,
                               "scenario": rep.get("scenario"), "detail": rep.get("detail")}, fh, indent=1)
                hit = [f for f in findings if f["property"] == pid and f["key"] == key]
                if hit:
                    known_hits.append((r, hit[0], key))
                else:
                    violations.append((r, key, rpath))

        wall = time.time() - t0
        write_evidence(pid, args.tier, seed, spec, results, info, wall, violations, known_hits, inconclusive)

        for r, f, key in known_hits:
            log("KNOWN-FINDING: property=%s %s [%s]" % (pid, f["what"], key))
        for r, key, rpath in violations:
            log("VIOLATION property=%s replay=%s" % (pid, rpath))
            log("  harness=%s key=%s labels=%s" % (r["harness"], key, r.get("failed_labels")))
            log("  scenario: %s" % r["replay"].get("scenario"))
            log("  native: %s" % r["replay"].get("detail"))
        for r in inconclusive:
            log("INCONCLUSIVE property=%s harness=%s: %s (log %s)" % (pid, r["harness"], r["reason"], r["log"]))
        if not args.keep:
            shutil.rmtree(ov, ignore_errors=True)
            shutil.rmtree(os.path.join(workdir, "replay"), ignore_errors=True)
        if violations:
            return 1
        if inconclusive:
            return 2
        log("[%s] %s: %d harnesses, all obligations discharged in %.0fs" % (pid, args.tier, len(results), wall))
        return 0


def do_replay_file(path, ov, workdir):
    d = json.load(open(path))
    replayer, err = build_replayer(ov, workdir)
    if replayer is None:
        log("replayer build failed:\n" + err[-2000:])
        return 2
    rep = run_replayer(replayer, d["harness"], d["vals"], ov=ov)
    log(json.dumps(rep, indent=1))
    if rep.get("reproduced"):
        log("VIOLATION property=%s replay=%s" % (d["property"], path))
        return 1
    return 0


def write_evidence(pid, tier, seed, spec, results, info, wall, violations, known_hits, inconclusive):
    evaluations = sum(r["checks_total"] for r in results)
    labels = set()
    samples = []
    solver_time = 0.0
    for r in results:
        h = r["spec"]
        for d in r["oracle_ok"]:
            labels.add((r["harness"], d))
        for c in r["covers"]:
            if c["status"] == "SATISFIED":
                labels.add((r["harness"], "cover:" + c["desc"]))
        if r["verification_time_s"]:
            solver_time += r["verification_time_s"]
        samples.append({
            "harness": r["harness"],
            "engine": "z3 on an encoding generated from the source (smt/%s)" % h["script"] if h.get("engine") == "smt" else "kani/cbmc",
            "verdict": r["verdict"],
            "reason": r.get("reason", ""),
            "bounds": h.get("bounds", ""),
            "symbolic": h.get("symbolic", ""),
            "oracle_assertions_discharged": sorted(set(r["oracle_ok"])),
            "failed": r.get("failed_labels", []),
            "covers": r["covers"],
            ("solver_queries" if h.get("engine") == "smt" else "cbmc_checks"): r["checks_total"],
            "verification_time_s": r["verification_time_s"],
            "wall_s": r["wall_s"],
            "replay": {k: v for k, v in (r.get("replay") or {}).items() if k in ("reproduced", "role", "scenario", "detail", "vals")},
        })
    fns = []
    stubs = []
    for r in results:
        for f in r["spec"].get("functions", []):
            if f not in fns:
                fns.append(f)
        for s in r["spec"].get("stubs", []):
            if s not in stubs:
                stubs.append(s)
    ev = {
        "property_id": pid,
        "tier": tier,
        "seed": seed,
        "level": "model_checking",
        "coverage": {
            "evaluations": evaluations,
            "distinct_nontrivial": len(labels),
            "rule": spec.get("rule") or ("bounded model checking (Kani 0.68 / CBMC 6.11 / CaDiCaL) of the real functions listed under "
                     "functions_encoded, compiled from a fresh copy of /repo's working tree. evaluations = number of "
                     "CBMC properties (harness oracle assertions, Rust panics/overflow/bounds checks, unwinding "
                     "assertions) decided by the solver over all values of the symbolic inputs within the bounds; "
                     "distinct_nontrivial = number of distinct harness oracle assertions proved plus reachability "
                     "covers satisfied (a cover that is not satisfiable makes the run inconclusive).") + (
                " Samples whose engine is z3 are SMT queries over an encoding regenerated from /repo's source on every run "
                "(smt/); there evaluations counts solver queries." if any(r["spec"].get("engine") == "smt" for r in results)
                and not spec.get("rule") else ""),
            "samples": samples,
            "exhaustive": False,
            "functions_encoded": fns,
            "stubs": stubs,
            "queries_discharged": evaluations,
            "solver_time_s": round(solver_time, 1),
            "source_digest": info["source_digest"],
            "harness_mounts": info["appended"],
            "known_findings_hit": [k for _, _, k in known_hits],
            "inconclusive": [{"harness": r["harness"], "reason": r["reason"]} for r in inconclusive],
        },
        "assumptions": spec.get("assumptions", []) + ([] if spec.get("no_common_assumptions") else registry.COMMON_ASSUMPTIONS),
        "wall_s": round(wall, 1),
        "violations": len(violations),
    }
    with open(os.path.join(EVID, pid + ".json"), "w") as fh:
        json.dump(ev, fh, indent=1)


if __name__ == "__main__":
    sys.exit(main(sys.argv[1:]))
