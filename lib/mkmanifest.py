#!/usr/bin/env python3
"""Regenerate /verif/MANIFEST.json from the check registry (run after editing registry.py)."""
import json
import os
import sys

HERE = os.path.dirname(os.path.abspath(__file__))
VERIF = os.path.dirname(HERE)
sys.path.insert(0, HERE)
import registry  # noqa: E402

LEVEL_TEXT = {
    "C01": "bounded model checking of the real per-connection loop VarlinkService::handle against a contract model of the "
           "dispatcher: for every number of replies and every outcome (Ok / Err / upgrade) of each dispatched request, in "
           "streams of 1-3 pipelined messages of every loop-path shape, replies come in request order, exactly as many as "
           "written, nothing after a close, every buffered request served, the incomplete tail returned. Reduced: framing, "
           "flags and method shapes are enumerated per harness instance, not solver-chosen",
    "C02": "bounded model checking of handle(): whole-stream vs. two-chunk feeding (every structural cut position) gives the "
           "same replies and tail; after an upgrade no byte is lost or duplicated between the returned remainder and the reader",
    "C03": "bounded model checking of the built-in org.varlink.service interface (GetInfo content, GetInterfaceDescription "
           "answers, MethodNotFound payload), of the private VarlinkService::call on an empty table, and of the "
           "split-at-last-dot in handle() for every dot placement shape",
    "C04": "bounded model checking of every reply path the library owns, for all 27 flag combinations: a oneway request "
           "never produces reply bytes, any other request exactly one framed reply",
    "C05": "bounded model checking of the continues gate in Call::reply_struct for all flag combinations and all scripts of "
           "<= 3 implementation actions (server half of the property)",
    "C06": "bounded model checking of handle()'s containment logic around the parser (reduced claim): a message the parser "
           "rejects is neither dispatched nor answered, the requests before it are, and handle() returns Err; serde_json's own "
           "robustness and the listen() worker are outside",
    "C11": "SMT-decided (a) language equality, on bounded ASCII text shapes, between the real peg grammar (its source text "
           "under rust-peg's recognition semantics, re-encoded from /repo on every run) and a fixed reference grammar "
           "read declaratively, and (b) duplicate rejection, naming of duplicated names and order of appearance by symbolic "
           "execution of IDL::from_token's MIR for every list of 1-4 (thorough: 5) members with arbitrary kinds and names; "
           "reduced: field types and documentation strings of the resulting structure are not compared",
    "C07": "SMT-decided, on all paths of the MIR of MethodCall::send and MethodCall::recv from every state of the reader / writer "
           "slots: one call at a time (busy and called-already refusals write nothing and change nothing, a free connection gets "
           "exactly one message with the call mode's flags), stream ownership after send and after every kind of reply, success "
           "exactly for a reply without error member; reduced: one thread, the error-name mapping is outside",
    "C15": "SMT-decided, on all runs of the accept loop of varlink::listen with at most 8 / 11 (thorough 12 / 13) accept calls: a "
           "timeout error only after idle_timeout of waits that timed out and with a busy count of 0, never with idle_timeout 0 "
           "and a stop flag; Ok only when the stop flag was just read true, and at once; accept errors returned; accepted "
           "connections handed to the pool; an idle server does time out; reduced: draining (pool drop joins) and socket "
           "removal are outside",
    "C19": "SMT-decided, on all paths of each step function's MIR (test01..test11, end) and of the client table: the success reply "
           "is produced only for the canonical request of a client that is known and in that step, and is produced for it; "
           "reduced: value comparison and parameter deserialization are free booleans, Start and time-outs are outside",
    "C12": "bounded model checking of the syntax-error position arithmetic (line lookup, column) over all 4-byte texts "
           "and error offsets (reduced claim: totality of the grammar is out of reach)",
    "C14": "bounded model checking of one inductive step of the acceptor (real ThreadPool::execute) from every pool state "
           "satisfying the representation invariant, of ThreadPool::new establishing it, and of the real worker closure "
           "run inline; thread schedules are abstracted into atomic steps",
    "C16": "bounded model checking of the socket-activation decision (real activation_listener) over the environment "
           "(reduced claim: address / activation logic; transport equivalence needs the kernel)",
    "C17": "bounded model checking of the real Serialize / Deserialize impls at the serde data-model level: what is "
           "emitted (member names, omitted optionals, string-set shape) and that feeding it back under the strict MapAccess "
           "protocol yields the original value",
}


ENGINE_OF = {"C11": "smt-grammar", "C19": "smt-mir", "C07": "smt-mir", "C15": "smt-mir"}
_KANI = ("Kani/CBMC bounded model checking (SAT) of the compiled Rust functions over symbolic inputs, environment stubbed, "
         "counterexamples replayed natively")
_MIR_HANDLE = ("; plus z3 queries over a path-by-path symbolic execution of the rustc MIR of VarlinkService::handle with the stream as a "
               "nondeterministic stub (symbolic framing at message granularity), witnesses replayed natively")
TECHNIQUE = {
    "C01": _KANI + _MIR_HANDLE,
    "C02": _KANI + _MIR_HANDLE,
    "C06": _KANI + _MIR_HANDLE,
    "C03": _KANI + ("; plus z3 queries over a symbolic execution of the rustc MIR of VarlinkService::new and VarlinkService::call with "
                    "contract models for HashMap (the populated interface table), witnesses replayed natively"),
    "C04": _KANI + ("; plus z3 queries over a symbolic execution of the rustc MIR of MethodCall::oneway and MethodCall::send (the client "
                    "clause: one send flagged oneway, no read, the stream stays with the connection), confirmed natively on a real "
                    "connection with replies waiting"),
    "C05": _KANI + ("; plus z3 queries over a symbolic execution of the rustc MIR of <MethodCall as Iterator>::next, MethodCall::more, "
                    "MethodCall::call and MethodCall::recv (the client half: one step from an arbitrary state of the continues "
                    "flag and the stream slots, callees replaced by contract models), witnesses confirmed natively on real "
                    "Connection / MethodCall objects over scripted reply streams"),
    "C15": "z3 (SMT) over a path-by-path symbolic execution of the rustc MIR of varlink::listen (dumped from /repo on every run) with "
           "the environment as nondeterministic stubs: every accept yields a connection / a timeout / an error, every read of the "
           "stop flag and the busy count an arbitrary value, time = the sum of the waits that timed out, idle_timeout symbolic; "
           "bounded by the number of accept calls per run; per path `path condition and not property` must be unsat; confirmed "
           "natively by timed runs of the real listen",
    "C07": "z3 (SMT) over a path-by-path symbolic execution of the rustc MIR of MethodCall::send and MethodCall::recv and of the entry "
           "points call / more / oneway / upgrade / Iterator::next, and of <ErrorKind as From<Reply>>::from (dumped from "
           "/repo on every run) from an arbitrary state of the connection's and the call's stream slots, callees replaced by "
           "contract models; per path the query `path condition and not property` must be unsat; a model is a slot state + call "
           "mode / reply shape, replayed on real Connection / MethodCall objects over in-memory streams",
    "C19": "z3 (SMT) over a path-by-path symbolic execution of the rustc MIR of the certification service's step functions and "
           "client table (dumped from /repo on every run), callees replaced by contract models; per path the query `path "
           "condition and not property` must be unsat; a model is a request shape, replayed against the real server process",
    "C12": "Kani/CBMC bounded model checking (SAT) of the error-position arithmetic of IDL::try_from over symbolic texts and "
           "offsets, counterexamples replayed natively; plus z3 queries over a bounded encoding generated from the peg grammar "
           "source (no repetition can match the empty string: the recogniser terminates)",
    "C11": "z3 (SMT) over encodings generated from /repo's source on every run: (a) the peg grammar text -> bounded PEG "
           "recognition tables over symbolic ASCII bytes; for every text length of every registered shape the query `real "
           "grammar and reference grammar disagree on some text` must be unsat; (b) the rustc MIR of IDL::from_token, executed "
           "symbolically path by path with contract models for its callees, on member lists with symbolic kinds and names; "
           "per path `path condition and not property` must be unsat. Models are concrete texts / member lists, replayed "
           "through the real IDL::try_from natively before they are reported; the grammar translator is validated against "
           "the real parser on a corpus on every run",
}


def main():
    props = [json.loads(l) for l in open(os.path.join(VERIF, "properties.jsonl"))]
    na = json.load(open(os.path.join(VERIF, "not_applicable.json")))
    m = {
        "version": 1,
        "setup_cmd": "true",
        "hooks": {
            "guard": "varlink_rust_verif",
            "enable": "none needed: every check verifies a fresh copy of /repo's working tree with harness modules appended "
                      "under cfg(kani) (lib/overlay.py); /repo carries no hook commits",
            "baseline_off_cmd": "cd /repo && cargo nextest run --workspace --no-fail-fast --tool-config-file pb:/w/lib/nextest.toml "
                                "--profile pb --test-threads 8 --offline",
            "source_commits": [],
            "add_only": True,
        },
        "engines": [{
            "name": "kani-overlay",
            "path": "/verif/check",
            "serves_properties": sorted(k for k in registry.CHECKS if ENGINE_OF.get(k, "kani-overlay") == "kani-overlay"),
            "kind_free_text": "Kani 0.68 / CBMC 6.11 (CaDiCaL) bounded model checking of the real functions, compiled from a "
                              "per-run copy of /repo with harness modules appended; environment replaced by stubs (-Z stubbing); "
                              "counterexamples are replayed natively (no stubs, real serde_json / sockets / threads) before "
                              "they are reported",
        }, {
            "name": "smt-grammar",
            "path": "/verif/check",
            "serves_properties": sorted(k for k in registry.CHECKS if ENGINE_OF.get(k) == "smt-grammar"),
            "kind_free_text": "z3 5.1 (python3-vt) on an encoder written for this repository (smt/): the rust-peg grammar text "
                              "of a per-run copy of /repo -> bounded PEG recognition tables over symbolic ASCII bytes, compared "
                              "with a fixed reference grammar; models replayed natively through the real parser",
        }, {
            "name": "smt-mir",
            "path": "/verif/check",
            "serves_properties": sorted(k for k in registry.CHECKS if ENGINE_OF.get(k) == "smt-mir"),
            "kind_free_text": "z3 5.1 on a symbolic executor for rustc MIR written for this repository (smt/mirsym.py): nightly "
                              "-Zunpretty=mir of a per-run copy of /repo, one function at a time, callees replaced by contract models; "
                              "models replayed natively against the real code",
        }],
        "checks": [],
        "notes": "exit 0 = every harness of the tier reached SUCCESSFUL with all covers satisfied; exit 1 = a natively "
                 "reproduced violation not listed in known_findings.txt; exit 2 = inconclusive (timeout, out of memory, "
                 "unwinding assertion, unsupported construct, vacuous cover, counterexample that does not reproduce) - "
                 "never reported as a pass or as a violation.",
        "not_applicable": [],
    }
    for pid in sorted(registry.CHECKS.keys()):
        spec = registry.CHECKS[pid]
        m["checks"].append({
            "property_id": pid,
            "quick_cmd": "./check %s --tier quick" % pid,
            "thorough_cmd": "./check %s --tier thorough" % pid,
            "evidence_file": "/verif/evidence/%s.json" % pid,
            "replay_cmd_template": "./check %s --replay {path}" % pid,
            "engine": ENGINE_OF.get(pid, "kani-overlay"),
            "level_claimed": {
                "category": "model_checking",
                "text": LEVEL_TEXT.get(pid, "bounded model checking of the real functions"),
                "design_ref": "DESIGN.md section " + spec.get("design_ref", "3"),
            },
            "level_note": "; ".join(spec.get("assumptions", []))[:1800],
            "technique": TECHNIQUE.get(pid, "Kani/CBMC bounded model checking (SAT) of the compiled Rust functions over "
                                      "symbolic inputs, environment stubbed, counterexamples replayed natively"),
        })
    claimed = set(registry.CHECKS.keys())
    for p in props:
        if p["id"] not in claimed:
            m["not_applicable"].append({"property_id": p["id"], "reason": na.get(p["id"], "not claimed")})
    json.dump(m, open(os.path.join(VERIF, "MANIFEST.json"), "w"), indent=1)
    print("claimed:", sorted(claimed))
    print("not applicable:", [x["property_id"] for x in m["not_applicable"]])


if __name__ == "__main__":
    main()
